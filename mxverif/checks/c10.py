"""C10 - result views: normalisation, segment binding, stacking, producers/consumers (DESIGN 4/C10)."""

from __future__ import annotations

import ast

from ..core import specialise_delegate, AnalysisError, Check, Scope, norm, strip_docstring, walk_no_nested
from ..deps import DepInterp, DepSt
from ..variants import Variant

MOD = "simulation.py"
CLS = "Simulation"
EVAL_METHODS = {
    "get_args_time_course", "get_right_hand_side_time_course", "get_stoichiometries_of_variable",
    "get_args", "get_fluxes_time_course", "get_right_hand_side", "get_fluxes", "get_stoichiometries",
}


class C10(Check):
    pid = "C10"
    title = "Result views are consistent functions of states and segment parameters"
    rules = {
        "V1": "normalisation consumes its input: on every branch of _normalise_split_results the returned value depends on "
              "both `results` and `normalise`; the per-row branch walks consecutive row windows [sum(len_<k), sum(len_<=k))",
        "V2": "segment binding: every evaluation of model quantities for a segment is preceded, in the same iteration over "
              "zip(.., self.raw_parameters), by self.model.update_parameters(<that segment's parameters>)",
        "V3": "concatenated views are pd.concat(<per-segment list>, axis=0) in list order",
        "V6": "normalisation is applied exactly once per view: the `normalise` argument flows into exactly one normalising call on every "
              "path (a view that forwards it to an inner view must not apply it again)",
        "V7": "get_new_y0 is the last row of the plain variables (no derived quantities / readouts / surrogate outputs) of the concatenated result",
        "V4": "producers select coefficients > 0, consumers < 0; scaled views multiply by the coefficient (consumers by its negation)",
        "V5": "all views read the lazily filled argument table through the single filler, which fills at most once, one table per segment",
    }
    floors = {"V1": 4, "V2": 4, "V3": 3, "V4": 4, "V5": 3, "V6": 5, "V7": 1}
    decided = [
        "every normalisation argument shape yields a view computed from the data and the factors (no dead branch)",
        "quantities of a segment are computed under that segment's parameter values",
        "concatenated = per-segment stacked in order; producers/consumers split by coefficient sign",
        "repeated reads go through one at-most-once filler",
    ]
    undecided = ["N*v = dx/dt numerically", "the arithmetic of pandas broadcasting in the per-segment/per-row division"]
    assumptions = ["Model.update_parameters returns the model (fluent) and invalidates its cache (C03)"]

    def views(self, mod) -> dict:
        """Methods of Simulation; a view that only delegates to a private helper is replaced by the helper specialised for that call."""
        if getattr(self, "_views", None) is None:
            self._views = {n: specialise_delegate(mod, f, CLS) for n, f in mod.methods(CLS).items()}
        return self._views

    def run(self) -> None:
        self._views = None
        mod = self.prog.module(MOD)
        self.v1(mod)
        self.v2(mod)
        self.v3(mod)
        self.v4(mod)
        self.v5(mod)
        self.v6(mod)
        g = self.views(mod).get("get_new_y0")
        if g is None:
            raise AnalysisError("Simulation.get_new_y0 missing")
        t = norm(g.body[-1])
        if t == "return dict(self.get_variables(include_derived_variables=False, include_readouts=False, include_surrogate_variables=False).iloc[-1])":
            self.holds("V7", MOD, f"{CLS}.get_new_y0", "last-row-of-variables", g, "last row of the plain variables")
        else:
            self.violated("V7", MOD, f"{CLS}.get_new_y0", "last-row-of-variables", g, f"`{t[:90]}` is not the last row of the plain variables",
                          witness="get_new_y0() returns the first state / includes derived quantities, so a restarted simulation begins elsewhere")

    # ------------------------------------------------------------------
    def v1(self, mod) -> None:
        fn = mod.func("_normalise_split_results")
        q = fn.name
        params = [a.arg for a in fn.args.args]
        di = DepInterp()
        st = DepSt()
        for p in params:
            st = st.set(p, frozenset({p}))
        di.run_function(fn, st)
        if len(di.returns) < 3:
            raise AnalysisError(f"{q}: expected the scalar / per-segment / per-row returns, found {len(di.returns)}")
        by_node: dict[int, tuple] = {}
        for node, srcs, rst in di.returns:
            # a path whose only loop ran zero times has no rows to divide: the factors need not be consumed there
            required = set(params[:1]) if (rst.loops_entered > 0 and not rst.iterated) else set(params)
            missing = sorted(required - srcs)
            cur = by_node.get(id(node))
            by_node[id(node)] = (node, sorted(set(missing) | set(cur[1] if cur else [])))
        for node, missing in by_node.values():
            cons = f"return@{'comprehension' if isinstance(node.value, ast.ListComp) else 'loop-result'}:{sorted(n.id for n in ast.walk(node.value) if isinstance(n, ast.Name) and n.id in params)}"
            if missing:
                self.violated("V1", MOD, q, cons, node,
                              f"on some path the value returned by `{norm(node)[:60]}` does not depend on {missing}: the input is not "
                              f"consumed (a parameter is rebound before it is read, or the loop body is dead)",
                              witness="sim.get_variables(normalise=<one factor per row>) raises 'No objects to concatenate' / returns nothing")
            else:
                self.holds("V1", MOD, q, cons, node, "depends on results and normalise on every path that has rows")
        self.windows(fn, q)
        # the operation itself: each produced frame is <frame> / <something computed from normalise> (a transpose around it is fine)
        from ..core import expand_locals, single_defs

        defs = single_defs(fn, anywhere=True)
        factor_names = {params[1]} if len(params) > 1 else set()
        for _ in range(3):
            for k, v in defs.items():
                if any(isinstance(y, ast.Name) and y.id in factor_names for y in ast.walk(v)):
                    factor_names.add(k)
        loop_items = set()
        for x in ast.walk(fn):
            if isinstance(x, (ast.For, ast.comprehension)):
                for y in ast.walk(x.target):
                    if isinstance(y, ast.Name):
                        (factor_names if any(isinstance(z, ast.Name) and z.id in factor_names for z in ast.walk(x.iter)) and not any(
                            isinstance(z, ast.Name) and z.id == params[0] for z in ast.walk(x.iter)) else loop_items).add(y.id)
                if isinstance(x.iter, ast.Call) and norm(x.iter.func) == "zip" and isinstance(x.target, ast.Tuple):
                    for t_, a_ in zip(x.target.elts, x.iter.args):
                        if isinstance(t_, ast.Name) and any(isinstance(z, ast.Name) and z.id in factor_names for z in ast.walk(a_)):
                            factor_names.add(t_.id)
                            loop_items.discard(t_.id)
        produced = []
        for x in walk_no_nested(fn):
            if isinstance(x, ast.Return) and isinstance(x.value, ast.ListComp):
                produced.append(x.value.elt)
            if isinstance(x, ast.Call) and isinstance(x.func, ast.Attribute) and x.func.attr == "append" and x.args:
                produced.append(x.args[0])
        n_ok = 0
        for e in produced:
            e0 = expand_locals(e, defs, depth=2)
            while isinstance(e0, ast.Attribute) and e0.attr == "T":
                e0 = e0.value
            ok = isinstance(e0, ast.BinOp) and isinstance(e0.op, ast.Div) \
                and any(isinstance(z, ast.Name) and z.id in loop_items for z in ast.walk(e0.left)) \
                and any(isinstance(z, ast.Name) and z.id in factor_names for z in ast.walk(e0.right)) \
                and not any(isinstance(z, ast.Name) and z.id in factor_names for z in ast.walk(e0.left))
            if ok:
                n_ok += 1
            else:
                self.violated("V1", MOD, q, f"divides `{norm(e)[:40]}`", e, f"`{norm(e)[:70]}` is not the frame divided by its normalisation factor",
                              witness="get_fluxes(normalise=2.0) returns fluxes times two")
        if produced and n_ok == len(produced):
            self.holds("V1", MOD, q, "divides", produced[0], f"all {n_ok} produced frames are frame / factor")
        elif not produced:
            self.undecided_ob("V1", MOD, q, "divides", fn, "produced frames not recognised")

    def windows(self, fn, q) -> None:
        """Per-row branch: the window arithmetic for three segments (mxverif.windows)."""
        from ..windows import partition_violation, slice_windows

        try:
            windows, loop, L = slice_windows(fn, "results", None)
        except AnalysisError as e:
            self.undecided_ob("V1", MOD, q, "row-windows", fn, str(e))
            return
        if len(windows) != 3:
            self.undecided_ob("V1", MOD, q, "row-windows", loop, f"{len(windows)} slice(s) of the factor array found in 3 iterations")
            return
        bad = partition_violation(windows, L)
        if bad:
            k, lo, hi, wl, wh, node = bad
            self.violated("V1", MOD, q, "row-windows", node,
                          f"segment {k + 1} is divided by factor rows [{lo}:{hi}] instead of [{wl}:{wh}] (segment lengths l1,l2,l3)",
                          witness="a three-segment result normalised per row: the third segment uses the wrong factors / an empty slice")
        else:
            self.holds("V1", MOD, q, "row-windows", loop, "for three segments of lengths l1,l2,l3 the windows are [0:l1],[l1:l1+l2],[l1+l2:l1+l2+l3]")

    # ------------------------------------------------------------------
    def v2(self, mod) -> None:
        methods = self.views(mod)
        n = 0
        for name, fn in methods.items():
            if any(norm(d) == "overload" for d in fn.decorator_list):
                continue
            q = f"{CLS}.{name}"
            sc = Scope(fn)
            for c in walk_no_nested(fn):
                if not (isinstance(c, ast.Call) and isinstance(c.func, ast.Attribute) and c.func.attr in EVAL_METHODS):
                    continue
                recv = c.func.value
                # chained: self.model.update_parameters(p).<eval>(..)
                chained = isinstance(recv, ast.Call) and norm(recv.func) == "self.model.update_parameters"
                if not chained and norm(recv) != "self.model":
                    continue
                n += 1
                cons = f"{c.func.attr} @ {norm(sc.stmt_of(c))[:40]}"
                bound = None
                if chained:
                    bound = norm(recv.args[0]) if recv.args else None
                else:
                    # a preceding statement in the same block (or an enclosing block) calls update_parameters
                    stmt = sc.stmt_of(c)
                    cur: ast.AST = stmt
                    for p, fld, child in sc.ancestors(stmt):
                        body = getattr(p, fld, None)
                        if isinstance(body, list) and child in body:
                            for prev in reversed(body[: body.index(child)]):
                                for x in ast.walk(prev):
                                    if isinstance(x, ast.Call) and norm(x.func) == "self.model.update_parameters" and x.args:
                                        bound = bound or norm(x.args[0])
                                if bound:
                                    break
                        if bound or isinstance(p, (ast.For, ast.While)):
                            if isinstance(p, (ast.For, ast.While)) and not bound:
                                pass
                            if bound:
                                break
                # the bound value must be this segment's parameters
                seg_ok = False
                why = ""
                if bound is None:
                    why = "no self.model.update_parameters(..) precedes it"
                else:
                    loops = [p for p in sc.enclosing(c, (ast.For, ast.ListComp, ast.GeneratorExp))]
                    for lp in loops:
                        gens = lp.generators if not isinstance(lp, ast.For) else [lp]
                        for g in gens:
                            itx = norm(g.iter)
                            tg = g.target
                            if "zip(" in itx and "self.raw_parameters" in itx and isinstance(tg, ast.Tuple):
                                zargs = [norm(a) for a in g.iter.args]
                                idx = zargs.index("self.raw_parameters") if "self.raw_parameters" in zargs else -1
                                if idx >= 0 and norm(tg.elts[idx]) == bound:
                                    seg_ok = True
                    seg_loops = [lp for lp in loops for g in (lp.generators if not isinstance(lp, ast.For) else [lp])
                                 if "self.raw_parameters" in norm(g.iter) or "self.raw_variables" in norm(g.iter)]
                    if not seg_ok and bound in ("self.raw_parameters[0]", "self.raw_parameters[-1]") and not seg_loops:
                        seg_ok = True  # name selection outside the segment loop, pinned to a definite segment
                    if not seg_ok:
                        why = f"it runs under update_parameters({bound}), which is not the parameter record of the segment being evaluated"
                if seg_ok:
                    self.holds("V2", MOD, q, cons, c, f"evaluated after update_parameters({bound})")
                else:
                    self.violated("V2", MOD, q, cons, c,
                                  f"model quantities are evaluated for a segment but {why}: values are computed under whatever "
                                  "parameters the shared model currently has",
                                  witness="simulate(1); update_parameter(k, 2k); simulate(2): the first segment's fluxes are reported under the second value")
        self.analysed["model_evaluations_in_Simulation"] = n
        # the derivative view asks the model for its right-hand side on each segment's own argument table
        rhs = next((f_ for n_, f_ in methods.items() if n_ == "get_right_hand_side" and not any(norm(d) == "overload" for d in f_.decorator_list)), None)
        if rhs is not None:
            q = f"{CLS}.get_right_hand_side"
            dele = [c for c in ast.walk(rhs) if isinstance(c, ast.Call) and isinstance(c.func, ast.Attribute) and c.func.attr == "get_right_hand_side_time_course"]
            own = [c for c in ast.walk(rhs) if isinstance(c, ast.Call) and isinstance(c.func, ast.Attribute) and c.func.attr in ("get_stoichiometries", "get_stoichiometries_of_variable")
                   and "variables" not in {k.arg for k in c.keywords} and len(c.args) < (2 if c.func.attr == "get_stoichiometries_of_variable" else 1)]
            if dele and all({k.arg for k in c.keywords} >= {"args"} or c.args for c in dele):
                self.holds("V2", MOD, q, "derivatives-from-the-model", dele[0], "each segment's derivatives are the model's own right-hand side on that segment's argument table")
            elif own:
                self.violated("V2", MOD, q, "derivatives-from-the-model", own[0],
                              f"the derivatives are rebuilt from `{norm(own[0])[:60]}`, i.e. from the coefficients at the model's initial state, instead of asking the model for its right-hand side "
                              "row by row: a coefficient that depends on the state is frozen",
                              witness="a reaction with stoichiometry {'x': Derived(fn=twice, args=['y'])}: sim.get_right_hand_side() differs from model.get_right_hand_side at every row but the first")
            else:
                self.undecided_ob("V2", MOD, q, "derivatives-from-the-model", rhs, "how the derivative view obtains the derivatives was not recognised")

    def v3(self, mod) -> None:
        for name in ("_adjust_data", "get_producers", "get_consumers"):
            fn = self.views(mod)[name]
            q = f"{CLS}.{name}"
            cs = [c for c in ast.walk(fn) if isinstance(c, ast.Call) and norm(c.func) == "pd.concat"]
            dl = [c for c in ast.walk(fn) if isinstance(c, ast.Call) and norm(c.func) == "self._adjust_data" and name != "_adjust_data"]
            if cs:
                c = cs[0]
                kw = {k.arg: norm(k.value) for k in c.keywords}
                if isinstance(c.args[0], ast.Name) and kw.get("axis", "0") == "0":
                    self.holds("V3", MOD, q, "concat", c, f"pd.concat({c.args[0].id}, axis=0) in list order")
                else:
                    self.violated("V3", MOD, q, "concat", c, f"`{norm(c)}` does not stack the per-segment frames in order along axis 0",
                                  witness="a two-segment result: rows of the concatenated view are reordered / placed side by side")
            elif dl and isinstance(dl[0].args[0], ast.Name) and {k.arg: norm(k.value) for k in dl[0].keywords}.get("concatenated") == "concatenated":
                self.holds("V3", MOD, q, "concat", dl[0], f"delegates stacking of {dl[0].args[0].id} to _adjust_data (checked there)")
            else:
                self.violated("V3", MOD, q, "concat", fn, "the per-segment list is neither stacked with pd.concat(.., axis=0) nor handed to _adjust_data")

    def v6(self, mod) -> None:
        NORMALISERS = ("self._adjust_data", "_normalise_split_results", "self.get_fluxes", "self.get_variables", "self.get_args", "self.get_right_hand_side")
        for name, fn in self.views(mod).items():
            if any(norm(d) == "overload" for d in fn.decorator_list):
                continue
            if "normalise" not in [a.arg for a in fn.args.args + fn.args.kwonlyargs]:
                continue
            q = f"{CLS}.{name}"

            class Count(ast.NodeVisitor):
                pass

            from ..interp import PathInterp

            class NI(PathInterp):
                def simple(self_i, stmt, st):
                    n = st
                    for c in ast.walk(stmt):
                        if isinstance(c, ast.Call) and norm(c.func) in NORMALISERS:
                            kw = {k.arg: norm(k.value) for k in c.keywords}
                            if kw.get("normalise") == "normalise":
                                n += 1
                    if isinstance(stmt, ast.Return):
                        yield ("return", n)
                        return
                    if isinstance(stmt, ast.Raise):
                        yield ("raise", n, None)
                        return
                    yield ("normal", n)

            out = NI().run_function(fn, 0)
            counts = sorted({st for st, _ in out.returns})
            if name == "_adjust_data":
                # the normaliser itself: applies iff normalise is not None
                from ..interp import Sym as _S, SymInterp as _SI

                ok_adj = True
                n_paths = 0
                for st_, _ in _SI().run_function(fn, _S()).returns:
                    ret_ = next((e_[1] for e_ in reversed(st_.events) if e_[0] == "return"), "")
                    given = [not v_ for c_, v_ in st_.conds if c_ == "normalise is None"]
                    if not given:
                        ok_adj = False
                        continue
                    n_paths += 1
                    k_ = ret_.count("_normalise_split_results(")
                    if given[0] and not (k_ == 1 and "_normalise_split_results(data, normalise=normalise)" in ret_.replace("results=data", "data")):
                        ok_adj = False
                    if not given[0] and k_ != 0:
                        ok_adj = False
                if ok_adj and n_paths:
                    self.holds("V6", MOD, q, "normalise-once", fn, "applies the factors once, iff they are given")
                else:
                    self.violated("V6", MOD, q, "normalise-once", fn, "_adjust_data does not apply the factors exactly once when given")
                continue
            if counts == [1]:
                self.holds("V6", MOD, q, "normalise-once", fn, "`normalise` reaches exactly one normalising call on every path")
            else:
                self.violated("V6", MOD, q, "normalise-once", fn,
                              f"`normalise` reaches {counts} normalising calls depending on the path: the view is divided by the factors "
                              + ("more than once" if max(counts) > 1 else "not at all"),
                              witness="get_producers('x', normalise=2.0) returns fluxes divided by 4 (or undivided)")

    def v4(self, mod) -> None:
        import sympy

        def to_sym(e, syms):
            if isinstance(e, ast.Constant) and isinstance(e.value, (int, float)) and not isinstance(e.value, bool):
                return sympy.nsimplify(e.value)
            if isinstance(e, ast.UnaryOp) and isinstance(e.op, ast.USub):
                return -to_sym(e.operand, syms)
            if isinstance(e, ast.BinOp) and isinstance(e.op, (ast.Add, ast.Sub, ast.Mult)):
                x, y = to_sym(e.left, syms), to_sym(e.right, syms)
                return x + y if isinstance(e.op, ast.Add) else x - y if isinstance(e.op, ast.Sub) else x * y
            if norm(e) in syms:
                return syms[norm(e)]
            raise AnalysisError(f"`{norm(e)}` not interpretable")

        for name, positive in (("get_producers", True), ("get_consumers", False)):
            orig = self.views(mod)[name]  # already specialised
            fn = specialise_delegate(mod, orig, CLS)
            q = f"{CLS}.{name}"
            sel = [c for c in ast.walk(fn) if isinstance(c, ast.ListComp) and c.generators[0].ifs
                   and "get_stoichiometries_of_variable" in norm(c.generators[0].iter) and isinstance(c.generators[0].target, ast.Tuple)]
            if not sel:
                raise AnalysisError(f"{q}: name selection not recognised")
            t = sel[0].generators[0].ifs[0]
            v = sel[0].generators[0].target.elts[1].id
            x = sympy.Symbol("x", real=True)
            ok = False
            try:
                if isinstance(t, ast.Compare) and len(t.ops) == 1 and type(t.ops[0]) in (ast.Gt, ast.Lt, ast.GtE, ast.LtE, ast.NotEq, ast.Eq) and len(sel[0].generators[0].ifs) == 1:
                    lhs, rhs = to_sym(t.left, {v: x}), to_sym(t.comparators[0], {v: x})
                    rel = {ast.Gt: sympy.Gt, ast.Lt: sympy.Lt, ast.GtE: sympy.Ge, ast.LtE: sympy.Le, ast.NotEq: sympy.Ne, ast.Eq: sympy.Eq}[type(t.ops[0])](lhs, rhs)
                    got = sympy.solveset(rel, x, sympy.S.Reals) if rel not in (sympy.true, sympy.false) else (sympy.S.Reals if rel == sympy.true else sympy.S.EmptySet)
                    want = sympy.Interval.open(0, sympy.oo) if positive else sympy.Interval.open(-sympy.oo, 0)
                    ok = got == want
            except AnalysisError:
                ok = False
            if ok:
                self.holds("V4", MOD, q, "sign-selection", t, f"selects coefficients {'> 0' if positive else '< 0'}")
            else:
                self.violated("V4", MOD, q, "sign-selection", t, f"`{norm(t)}` does not select exactly the {'positive' if positive else 'negative'} coefficients",
                              witness="a reaction with coefficient 0 or of the other sign is listed")
            sc_ = [a for a in ast.walk(fn) if isinstance(a, ast.AugAssign) and isinstance(a.op, ast.Mult)]
            ok = False
            got_txt = norm(sc_[0].value) if sc_ else "?"
            if sc_:
                # the factor is the segment's own coefficient of the scaled column, with the sign of the view
                tgt = sc_[0].target
                col = norm(tgt.slice.elts[1]) if isinstance(tgt, ast.Subscript) and isinstance(tgt.slice, ast.Tuple) and len(tgt.slice.elts) == 2 else None
                subs = [n for n in ast.walk(sc_[0].value) if isinstance(n, ast.Subscript)]
                if col is not None and len(subs) == 1 and norm(subs[0].slice) == col:
                    src = norm(subs[0].value)
                    defs = [a for a in ast.walk(fn) if isinstance(a, ast.Assign) and norm(a.targets[0]) == src]
                    if defs and "get_stoichiometries_of_variable" in norm(defs[-1].value):
                        s_ = sympy.Symbol("s", real=True)
                        try:
                            ok = sympy.simplify(to_sym(sc_[0].value, {norm(subs[0]): s_}) - (s_ if positive else -s_)) == 0
                        except AnalysisError:
                            ok = False
            want = f"{'' if positive else '-'}<coefficient of the column>"
            if ok:
                self.holds("V4", MOD, q, "scaling", sc_[0], f"scaled by {got_txt}")
            else:
                self.violated("V4", MOD, q, "scaling", sc_[0] if sc_ else orig, f"scaled view multiplies by `{got_txt}` instead of `{want}`",
                              witness="scaled producers/consumers have the wrong sign or magnitude")

    def v5(self, mod) -> None:
        methods = self.views(mod)
        filler = methods.get("_compute_args")
        if filler is None:
            raise AnalysisError("Simulation._compute_args missing")
        q = f"{CLS}._compute_args"
        # decided on the path summaries of the filler: guard clause, nested if and staged locals all read alike
        import re as _re

        from ..interp import Sym, SymInterp

        class I1(SymInterp):
            loop_unroll = 1

        T = "self.raw_args"
        FILLED = {f"len({T}) > 0": True, f"len({T}) != 0": True, T: True, f"len({T}) >= 1": True, f"bool({T})": True,
                  f"len({T}) == 0": False, f"len({T}) < 1": False, f"len({T}) <= 0": False}
        paths = [st for st, _ in I1().run_function(filler, Sym()).returns]
        if not paths:
            raise AnalysisError(f"{q}: no path returns")
        first = strip_docstring(filler.body)[0]
        problems = []
        n_fill = n_hit = 0
        for st in paths:
            filled = None
            for c, v in st.conds:
                if c in FILLED:
                    filled = FILLED[c] == v
                    break
            apps = [e for e in st.events if e[0] == "call" and e[1].startswith(f"{T}.append(")]
            ret = [e[1] for e in st.events if e[0] == "return"]
            if apps and filled is not False:
                problems.append("tables are appended on a path that has not established that the table list is empty")
            if filled is True:
                n_hit += 1
                if not ret or ret[-1] != T:
                    problems.append(f"with the tables present the filler returns `{ret[-1] if ret else None}`")
            if apps:
                n_fill += 1
        if n_hit == 0:
            problems.append("no path returns the already filled table list")
        if problems:
            self.violated("V5", MOD, q, "fill-once", first, "; ".join(sorted(set(problems))) + ": tables are appended again on every read",
                          witness="reading sim.fluxes twice doubles raw_args and breaks the zip with raw_parameters")
        else:
            self.holds("V5", MOD, q, "fill-once", first, "tables are appended only when the list is empty; a filled list is returned as it is")
        seg_problems = []
        fill_paths = [st for st in paths if any(e[0] == "call" and e[1].startswith(f"{T}.append(") for e in st.events)]
        if not fill_paths:
            seg_problems.append("no path appends a table")
        for st in fill_paths:
            apps = [e[1] for e in st.events if e[0] == "call" and e[1].startswith(f"{T}.append(")]
            if len(apps) != 1:
                seg_problems.append(f"{len(apps)} tables appended per segment")
                continue
            if "ITEM(0, self.raw_variables)" not in apps[0]:
                seg_problems.append("the appended table is not computed from the segment's own frame")
            extra = [c for c, _ in st.conds if c not in FILLED]
            if extra:
                seg_problems.append(f"appending depends on `{extra[0][:50]}`")
        src = [n for n in ast.walk(filler) if isinstance(n, (ast.For, ast.comprehension)) and "self.raw_variables" in norm(n.iter)]
        if not src or not _re.search(r"zip\(self\.raw_variables, self\.raw_parameters\b", norm(src[0].iter)):
            seg_problems.append("frames and parameter sets are not walked pairwise over their whole length")
        if seg_problems:
            self.violated("V5", MOD, q, "one-table-per-segment", src[0] if src else filler, "not exactly one argument table per segment: " + "; ".join(sorted(set(seg_problems))))
        else:
            self.holds("V5", MOD, q, "one-table-per-segment", src[0], "exactly one table appended per (frame, parameters) pair, unfiltered")
        # the table is complete: every include_* option of Model.get_args_time_course is on (views select from it afterwards)
        mm = self.prog.module("model.py").func("Model.get_args_time_course")
        defaults = {}
        pos = mm.args.args
        for a, d in zip(pos[len(pos) - len(mm.args.defaults):], mm.args.defaults):
            defaults[a.arg] = d
        for a, d in zip(mm.args.kwonlyargs, mm.args.kw_defaults):
            if d is not None:
                defaults[a.arg] = d
        incl = [a for a in defaults if a.startswith("include_")]
        fills = [c for c in ast.walk(filler) if isinstance(c, ast.Call) and isinstance(c.func, ast.Attribute) and c.func.attr == "get_args_time_course"]
        if not fills or not incl:
            self.undecided_ob("V5", MOD, q, "complete-table", filler, "call of Model.get_args_time_course (or its include_* options) not found")
        else:
            off = []
            for c in fills:
                kw = {k.arg: k.value for k in c.keywords}
                for a in incl:
                    v = kw.get(a, defaults[a])
                    if not (isinstance(v, ast.Constant) and v.value is True):
                        off.append(f"{a}={norm(v)}")
            if off:
                self.violated("V5", MOD, q, "complete-table", fills[0], f"the cached argument table is computed with {off}: views that ask for these columns get a table without them",
                              witness="sim.get_args(include_readouts=True) / sim.get_fluxes() lacks the columns (or raises KeyError) although the model provides them")
            else:
                self.holds("V5", MOD, q, "complete-table", fills[0], f"all {len(incl)} include_* options are on")
        # nobody else appends / reads raw_args directly
        others = []
        for name, fn in methods.items():
            if name in ("_compute_args", "__init__", "__repr__"):
                continue
            for x in walk_no_nested(fn):
                if isinstance(x, ast.Attribute) and norm(x) == "self.raw_args":
                    others.append((name, x))
        if others:
            self.violated("V5", MOD, f"{CLS}.{others[0][0]}", "single-filler", others[0][1], "self.raw_args is read/written outside the filler: a view can see an unfilled or partially filled table")
        else:
            self.holds("V5", MOD, CLS, "single-filler", filler, "raw_args is touched only by _compute_args")

    # ------------------------------------------------------------------
    def must_fire(self):
        N = "_normalise_split_results"
        return [
            Variant("reintroduce-rebinding", MOD, N, "    out = []\n", "    results = []\n    out = []\n", expect="V1|", quick=True),
            Variant("reintroduce-start-plus-end", MOD, N, "        start = end", "        start += end", expect="V1|simulation.py|_normalise_split_results|row-windows", quick=True),
            Variant("scalar-branch-ignores-factor", MOD, N, "return [i / normalise for i in results]", "return [i for i in results]", expect="V1|"),
            Variant("update-outside-loop", MOD, f"{CLS}._compute_args",
                    "    for res, p in zip(self.raw_variables, self.raw_parameters, strict=True):\n        self.model.update_parameters(p)\n",
                    "    self.model.update_parameters(self.raw_parameters[-1])\n    for res, p in zip(self.raw_variables, self.raw_parameters, strict=True):\n",
                    expect="V2|", quick=True),
            Variant("rhs-without-update", MOD, f"{CLS}.get_right_hand_side", "self.model.update_parameters(p).get_right_hand_side_time_course(args=args)",
                    "self.model.get_right_hand_side_time_course(args=args)", expect="V2|"),
            Variant("producers-geq", MOD, f"{CLS}.get_producers", "if v > 0", "if v >= 0", expect="V4|", quick=True),
            Variant("consumers-unsigned", MOD, f"{CLS}.get_consumers", "v.loc[:, k] *= -stoichs[k]", "v.loc[:, k] *= stoichs[k]", expect="V4|"),
            Variant("concat-reversed", MOD, f"{CLS}._adjust_data", "pd.concat(data, axis=0)", "pd.concat(data[::-1], axis=0)", expect="V3|", quick=True),
            Variant("concat-columns", MOD, f"{CLS}.get_producers", "pd.concat(fluxes, axis=0)", "pd.concat(fluxes, axis=1)", expect="V3|"),
            Variant("producers-normalised-twice", MOD, f"{CLS}.get_producers", "    if concatenated:\n        return pd.concat(fluxes, axis=0)\n    return fluxes",
                    "    return self._adjust_data(fluxes, normalise=normalise, concatenated=concatenated)", expect="V6|", quick=True),
            Variant("fluxes-never-normalised", MOD, f"{CLS}.get_fluxes", "return self._adjust_data(fluxes, normalise=normalise, concatenated=concatenated)", "return self._adjust_data(fluxes, normalise=None, concatenated=concatenated)", expect="V6|"),
            Variant("new-y0-first-row", MOD, f"{CLS}.get_new_y0", ".iloc[-1]", ".iloc[0]", expect="V7|"),
            Variant("filler-refills", MOD, f"{CLS}._compute_args", "    if len(self.raw_args) > 0:\n        return self.raw_args\n", "", expect="V5|", quick=True),
            Variant("view-bypasses-filler", MOD, f"{CLS}.get_fluxes", "self._compute_args()", "self.raw_args", expect="V5|"),
        ]

    def must_stay_silent(self):
        return [
            Variant("producers-delegate-stacking", MOD, f"{CLS}.get_producers", "    if concatenated:\n        return pd.concat(fluxes, axis=0)\n    return fluxes",
                    "    return self._adjust_data(fluxes, normalise=None, concatenated=concatenated)"),
            Variant("rename-out", MOD, "_normalise_split_results", r"\bout\b", "normalised", count=0, regex=True, quick=True),
            Variant("end-incremental", MOD, "_normalise_split_results", "        end = start + len(i)", "        end = len(i) + start"),
            Variant("start-by-length", MOD, "_normalise_split_results", "        start = end", "        start += len(i)"),
        ]


CHECK = C10
