"""C02 - dependency resolution: the algorithm's shape (DESIGN 4/C02, rules R1-R7)."""

from __future__ import annotations

import ast
from dataclasses import dataclass

from ..core import AnalysisError, Check, Scope, loop_as_listcomp, call_name, dotted, is_self_attr, norm, strip_docstring, walk_no_nested
from ..interp import PathInterp
from ..variants import Variant

MOD = "model.py"
CIRC = "CircularDependencyError"
MISS = "MissingDependenciesError"


def subset_test(test: ast.expr):
    """`E.required.issubset(A)` / `E.required <= A` / `A.issuperset(E.required)` / `A >= E.required`
    -> (element expr text, available expr text, polarity) else None."""
    pol = True
    while isinstance(test, ast.UnaryOp) and isinstance(test.op, ast.Not):
        pol = not pol
        test = test.operand
    if isinstance(test, ast.Call) and isinstance(test.func, ast.Attribute) and len(test.args) == 1:
        if test.func.attr == "issubset":
            req, av = test.func.value, test.args[0]
        elif test.func.attr == "issuperset":
            av, req = test.func.value, test.args[0]
        else:
            return None
    elif isinstance(test, ast.Compare) and len(test.ops) == 1:
        op = test.ops[0]
        if isinstance(op, ast.LtE):
            req, av = test.left, test.comparators[0]
        elif isinstance(op, ast.GtE):
            av, req = test.left, test.comparators[0]
        else:
            return None
    else:
        return None
    if isinstance(req, ast.Attribute) and req.attr == "required":
        return norm(req.value), norm(av), pol
    return None


@dataclass(frozen=True)
class LoopSt:
    inc: bool = False
    tested: bool = False


class BoundInterp(PathInterp):
    """R3: every path through one iteration of the sorter loop increments the counter and passes
    the `counter > cap -> raise` test."""

    loop_unroll = 1

    def __init__(self, counter_names: set[str], cap_tests: list[ast.If]) -> None:
        self.counter_names = counter_names
        self.cap_tests = {id(t) for t in cap_tests}

    def simple(self, stmt, st: LoopSt):
        if isinstance(stmt, ast.AugAssign) and isinstance(stmt.target, ast.Name) and stmt.target.id in self.counter_names:
            if isinstance(stmt.op, ast.Add):
                yield ("normal", LoopSt(True, st.tested))
                return
        if isinstance(stmt, ast.Assign) and len(stmt.targets) == 1 and isinstance(stmt.targets[0], ast.Name) \
                and stmt.targets[0].id in self.counter_names and isinstance(stmt.value, ast.BinOp) \
                and isinstance(stmt.value.op, ast.Add) and stmt.targets[0].id in {n.id for n in ast.walk(stmt.value) if isinstance(n, ast.Name)}:
            yield ("normal", LoopSt(True, st.tested))
            return
        if isinstance(stmt, ast.Raise):
            yield ("raise", st, self.raise_name(stmt))
            return
        yield ("normal", st)

    def stmt(self, s, st):
        if isinstance(s, ast.If) and id(s) in self.cap_tests:
            st = LoopSt(st.inc, True)
        return super().stmt(s, st)


class C02(Check):
    pid = "C02"
    title = "Dependency resolution is order-independent; bad graphs are rejected"
    rules = {
        "R1": "guard-dominates-emit: every append to the returned order is dominated by the true branch of "
              "`element.required <= available` for that element, and that branch extends `available` by element.provided",
        "R2": "no silent exit: every exit of the resolution loop other than 'queue empty' is a raise of the circular-dependency error",
        "R3": "bounded loop: every iteration path increments the counter and passes the `counter > cap -> raise` test",
        "R4": "cap adequacy: cap(n) >= n(n+1)/2 for all n >= 0 (worst-case pops of FIFO resolution of an acyclic graph); a data-dependent "
              "fan-in term max(len(x.required) ...) is a second symbol d, and the bound must already hold at d = 1 (a chain)",
        "R5": "missing-name check first: a raise of the missing-dependency error with payload "
              "sorted(required - (available U all provided)) per element dominates the loop",
        "R6": "no handler on the call chains from public queries to the sorter swallows the two errors",
        "R8": "the set of initially available names handed to the sorter is exactly the key set of the mapping the components are then "
              "evaluated on (plain parameters, plain initial values, data, time): a name class missing from it is reported as a missing "
              "dependency, an extra one lets a component run before its argument exists",
        "R7": "all component classes (initial assignments of variables and parameters, derived, reactions, surrogates "
              "with provided=outputs) are handed to the sorter and evaluation follows the sorter's order unfiltered",
    }
    floors = {"R1": 1, "R2": 1, "R3": 1, "R4": 1, "R5": 3, "R6": 5, "R7": 5, "R8": 1}
    decided = [
        "an element is emitted only once everything it requires is available; nothing is emitted otherwise",
        "resolution terminates; the only non-exhaustion exits raise the circular-dependency error",
        "the iteration cap cannot reject a resolvable graph",
        "missing names are reported first, as exactly required minus everything providable",
        "the errors reach the caller of every public query",
    ]
    undecided = [
        "numeric equality of the evaluated values across declaration orders (follows from R1+R7 given deterministic component functions; not checked numerically)",
        "semantics of set.issubset / SimpleQueue FIFO order (trusted)",
    ]
    assumptions = ["set.issubset, set.difference and queue.SimpleQueue behave as documented"]

    # ------------------------------------------------------------------
    def locate(self):
        mod = self.prog.module(MOD)
        cc = mod.func("Model._create_cache")
        sorter_name = None
        order_var = None
        for n in walk_no_nested(cc):
            if isinstance(n, ast.Assign) and isinstance(n.value, ast.Call) and isinstance(n.value.func, ast.Name) \
                    and n.value.func.id in mod.functions and len(n.targets) == 1 and isinstance(n.targets[0], ast.Name):
                callee = mod.functions[n.value.func.id]
                if any(isinstance(x, ast.Raise) and CIRC in norm(x) for x in ast.walk(callee)):
                    sorter_name, order_var, self.sort_call = n.value.func.id, n.targets[0].id, n.value
        if sorter_name is None:
            raise AnalysisError("sorter not found: no call in Model._create_cache to a function that raises " + CIRC)
        return mod, cc, mod.functions[sorter_name], order_var

    def run(self) -> None:
        mod, cc, sorter, order_var = self.locate()
        self.analysed = {"sorter": sorter.name}
        q = sorter.name
        sc = Scope(sorter)
        # returned list
        rets = [n for n in walk_no_nested(sorter) if isinstance(n, ast.Return) and n.value is not None]
        named = [r for r in rets if isinstance(r.value, ast.Name)]
        if not named:
            raise AnalysisError(f"{q}: return shape not recognised")
        out_names = {r.value.id for r in named}
        for r in rets:
            if isinstance(r.value, ast.Name):
                continue
            if isinstance(r.value, (ast.List, ast.Tuple)) and not r.value.elts:
                self.holds("R1", MOD, q, f"emit {norm(r)}", r, "returns an empty order")
            elif any(isinstance(x, ast.Attribute) and x.attr == "name" for x in ast.walk(r.value)):
                self.violated("R1", MOD, q, f"emit {norm(r)[:60]}", r,
                              f"`{norm(r)[:80]}` returns component names as resolved without testing `required <= available` for them",
                              witness="a model whose only computed component names itself: add_derived('d', f, args=['k','d']) is evaluated (KeyError) instead of rejected as circular")
            else:
                self.undecided_ob("R1", MOD, q, f"emit {norm(r)[:60]}", r, "return value of the sorter not recognised")
        loops = [n for n in sorter.body if isinstance(n, (ast.While, ast.For))]
        main = [l for l in loops if any(isinstance(x, ast.Call) and isinstance(x.func, ast.Attribute)
                                        and x.func.attr == "append" and isinstance(x.func.value, ast.Name)
                                        and x.func.value.id in out_names for x in ast.walk(l))]
        if len(main) != 1:
            raise AnalysisError(f"{q}: resolution loop not recognised ({len(main)} candidate loops)")
        loop = main[0]

        # ---- R1
        appends = [x for x in ast.walk(sorter) if isinstance(x, ast.Call) and isinstance(x.func, ast.Attribute)
                   and x.func.attr in ("append", "extend", "insert") and isinstance(x.func.value, ast.Name)
                   and x.func.value.id in out_names]
        for a in appends:
            arg = a.args[-1] if a.args else None
            el = norm(arg.value) if isinstance(arg, ast.Attribute) and arg.attr == "name" else None
            guard = None
            for test, pol in sc.guards(a):
                st = subset_test(test)
                if st and st[2] == pol and (el is None or st[0] == el):
                    guard = (test, st)
                    break
            cons = f"emit {norm(a)}"
            if el is None or guard is None or guard[1][0] != el:
                self.violated(
                    "R1", MOD, q, cons, a,
                    f"`{norm(a)}` emits a component that is not known to be resolvable: it is not dominated by the "
                    f"true branch of `<that element>.required <= available`",
                    witness="Model().add_parameters({'k':1}).add_derived('d', fns.add, args=['k','d']).get_args() "
                            "evaluates d with an unmet requirement (KeyError) instead of raising CircularDependencyError",
                )
                continue
            # same branch extends `available` by el.provided
            branch_if = [p for p, f in sc.enclosing_with_field(a, ast.If) if p.test is guard[0]][0]
            body = branch_if.body if guard[1][2] else branch_if.orelse
            upd = False
            for x in ast.walk(ast.Module(body=body, type_ignores=[])):
                if isinstance(x, ast.Call) and isinstance(x.func, ast.Attribute) and x.func.attr == "update" \
                        and norm(x.func.value) == guard[1][1] and x.args and norm(x.args[0]) == f"{el}.provided":
                    upd = True
                if isinstance(x, ast.AugAssign) and isinstance(x.op, ast.BitOr) and norm(x.target) == guard[1][1] \
                        and norm(x.value) == f"{el}.provided":
                    upd = True
            # the element variable must not be rebound between the test and the emit
            rebound = [x for x in ast.walk(ast.Module(body=body, type_ignores=[]))
                       if isinstance(x, ast.Name) and isinstance(x.ctx, ast.Store) and x.id == el]
            if upd and not rebound:
                self.holds("R1", MOD, q, cons, a,
                           f"dominated by `{norm(guard[0])}`; the branch extends {guard[1][1]} by {el}.provided")
            else:
                self.violated("R1", MOD, q, cons, a,
                              f"the resolved branch emits {el}.name but does not add {el}.provided to {guard[1][1]}"
                              if not upd else f"{el} is rebound between its test and its emission")
        if not appends:
            raise AnalysisError(f"{q}: no emission into the returned order found")

        # ---- R2
        exits = 0
        if isinstance(loop, ast.While) and not (isinstance(loop.test, ast.Constant) and loop.test.value is True):
            # exit by condition: must be a queue-emptiness test
            exits += 1
            self.info("R2", MOD, q, f"loop-condition {norm(loop.test)}", loop, "loop exits when its condition fails")
        for n in walk_no_nested(loop):
            if isinstance(n, (ast.Break, ast.Return)):
                # innermost enclosing loop must be `loop` for a break to leave it
                encl = [p for p in sc.enclosing(n, (ast.While, ast.For))]
                if isinstance(n, ast.Break) and encl and encl[0] is not loop:
                    continue
                exits += 1
                handlers = sc.enclosing(n, ast.ExceptHandler)
                ok = False
                if handlers and handlers[0].type is not None and norm(handlers[0].type) in ("Empty", "queue.Empty"):
                    tr = [p for p in sc.enclosing(handlers[0], ast.Try)][0]
                    ok = all(isinstance(s, (ast.Assign, ast.Expr)) and "get" in norm(s) for s in tr.body)
                cons = f"{'break' if isinstance(n, ast.Break) else 'return'} under {norm(sc.guards(n)[0][0]) if sc.guards(n) else ('except ' + norm(handlers[0].type) if handlers else 'loop body')}"
                if ok:
                    self.holds("R2", MOD, q, cons, n, "exit on queue exhaustion")
                else:
                    self.violated(
                        "R2", MOD, q, cons, n,
                        "the resolution loop is left while a component is still unresolved, without raising the "
                        "circular-dependency error",
                        witness="a component naming itself: add_derived('d', fns.add, args=['k','d']) -> numbers/KeyError, not CircularDependencyError",
                    )
        if exits == 0:
            raise AnalysisError(f"{q}: no loop exit recognised")

        # ---- R3
        cap_tests = []
        counters: set[str] = set()
        cap_expr = None
        for n in walk_no_nested(loop):
            if isinstance(n, ast.If) and isinstance(n.test, ast.Compare) and len(n.test.ops) == 1 \
                    and isinstance(n.test.ops[0], (ast.Gt, ast.GtE)) and isinstance(n.test.left, ast.Name):
                if any(isinstance(x, ast.Raise) and CIRC in norm(x) for x in ast.walk(n)):
                    cap_tests.append(n)
                    counters.add(n.test.left.id)
                    cap_expr = n.test.comparators[0]
                    self.cap_strict = isinstance(n.test.ops[0], ast.Gt)
        if not cap_tests:
            self.undecided_ob("R3", MOD, q, "termination-argument", loop,
                              "no `counter > cap: raise CircularDependencyError` test found in the loop; other termination arguments are not modelled")
        else:
            bi = BoundInterp(counters, cap_tests)
            o = bi.block(loop.body, [LoopSt()])
            back = o.normal + o.continues
            bad = [s for s in back if not (s.inc and s.tested)]
            # the cap branch must not fall through
            capo = bi.block(cap_tests[0].body, [LoopSt()])
            if capo.normal or capo.returns:
                self.violated("R3", MOD, q, "cap-branch-falls-through", cap_tests[0],
                              "the iteration-cap branch can complete without raising")
            elif bad:
                s = bad[0]
                self.violated(
                    "R3", MOD, q, "iteration-path-skips-counter", loop,
                    f"a path through the loop body reaches the back edge with counter incremented={s.inc}, "
                    f"cap tested={s.tested}: that path can repeat forever",
                    witness="a dependency cycle makes resolution spin without terminating",
                )
            else:
                self.holds("R3", MOD, q, "every-iteration-counts", loop,
                           f"{len(back)} back-edge state(s); all increment {sorted(counters)} and pass the cap test")

        # ---- R4
        if cap_expr is not None:
            self.r4(mod, sorter, cap_expr, q)

        # ---- R5
        self.r5(mod, sorter, loop, q)
        # ---- R6
        self.r6(mod, sorter)
        # ---- R7
        self.r7(mod, cc, sorter, order_var)

    # ------------------------------------------------------------------
    def r4(self, mod, sorter, cap_expr, q):
        import sympy

        n = sympy.Symbol("n", integer=True, nonnegative=True)
        defs: dict[str, ast.expr] = {}
        for s in sorter.body:
            if isinstance(s, ast.Assign) and len(s.targets) == 1 and isinstance(s.targets[0], ast.Name):
                defs.setdefault(s.targets[0].id, s.value)
        elements_param = [a.arg for a in sorter.args.args]
        fanin = sympy.Symbol("d", integer=True, nonnegative=True)
        fanin_used: list[str] = []

        def conv(e: ast.expr, depth=0):
            if depth > 5:
                raise AnalysisError("cap expression too deep")
            if isinstance(e, ast.Constant) and isinstance(e.value, (int, float)):
                return sympy.nsimplify(e.value)
            if isinstance(e, ast.Name) and e.id in defs:
                return conv(defs[e.id], depth + 1)
            if isinstance(e, ast.Call) and isinstance(e.func, ast.Name) and e.func.id == "len" and len(e.args) == 1 \
                    and isinstance(e.args[0], ast.Name) and e.args[0].id in elements_param:
                return n
            if isinstance(e, ast.BinOp):
                l, r = conv(e.left, depth + 1), conv(e.right, depth + 1)
                ops = {ast.Add: l + r, ast.Sub: l - r, ast.Mult: l * r, ast.Pow: l ** r}
                if isinstance(e.op, ast.FloorDiv):
                    return sympy.floor(l / r)
                if isinstance(e.op, ast.Div):
                    return l / r
                if type(e.op) in ops:
                    return ops[type(e.op)]
            if isinstance(e, ast.Call) and isinstance(e.func, ast.Name) and e.func.id == "max" and len(e.args) == 2:
                return sympy.Max(conv(e.args[0], depth + 1), conv(e.args[1], depth + 1))
            # a data-dependent fan-in term: max(len(x.required) for x in elements, default=c) -- the largest number of names one
            # element asks for.  It is independent of n: a chain has fan-in 1 whatever its length.
            if isinstance(e, ast.Call) and isinstance(e.func, ast.Name) and e.func.id == "max" and len(e.args) == 1 \
                    and isinstance(e.args[0], (ast.GeneratorExp, ast.ListComp)) and len(e.args[0].generators) == 1 \
                    and isinstance(e.args[0].generators[0].iter, ast.Name) and e.args[0].generators[0].iter.id in elements_param \
                    and not e.args[0].generators[0].ifs \
                    and isinstance(e.args[0].elt, ast.Call) and isinstance(e.args[0].elt.func, ast.Name) and e.args[0].elt.func.id == "len" \
                    and isinstance(e.args[0].elt.args[0], ast.Attribute) and isinstance(e.args[0].elt.args[0].value, ast.Name) \
                    and e.args[0].elt.args[0].value.id == e.args[0].generators[0].target.id \
                    and e.args[0].elt.args[0].attr == "required":
                fanin_used.append(norm(e))
                return fanin
            raise AnalysisError(f"cap expression `{norm(e)}` not convertible to a polynomial in len(elements)")

        try:
            cap = conv(cap_expr)
        except AnalysisError as e:
            self.undecided_ob("R4", MOD, q, f"cap {norm(cap_expr)}", cap_expr, str(e))
            return
        if fanin_used:
            # necessary condition: the cap must admit the reverse-declared chain, whose fan-in is 1 at every length
            at1 = cap.subs(fanin, 1) if getattr(self, "cap_strict", True) else cap.subs(fanin, 1) - 1
            badk = next((k for k in range(0, 60) if sympy.simplify((at1 - n * (n + 1) / 2).subs(n, k)) < 0), None)
            if badk is not None:
                self.violated(
                    "R4", MOD, q, "cap-vs-n(n+1)/2", cap_expr,
                    f"iteration cap `{norm(cap_expr)}` = {cap} with d = `{fanin_used[0]}`; a chain of one-argument elements has d = 1 at "
                    f"every length, the cap is then {sympy.expand(cap.subs(fanin, 1))}, fewer pops than the n(n+1)/2 that FIFO resolution of "
                    f"the chain declared in reverse order needs (n = {badk}): a legal graph is rejected as circular",
                    witness=f"a chain of {badk} one-argument derived quantities declared in reverse dependency order raises CircularDependencyError",
                )
                return
            # adequate for chains; for larger fan-in the same bound n(n+1)/2 applies, so the cap must not shrink as d grows
            for dv in (2, 3, 5, 10, 50):
                if any(sympy.simplify((cap.subs(fanin, dv) - (0 if getattr(self, "cap_strict", True) else 1) - n * (n + 1) / 2).subs(n, k)) < 0 for k in range(0, 60)):
                    self.undecided_ob("R4", MOD, q, f"cap {norm(cap_expr)}", cap_expr,
                                      f"the cap depends on the data-dependent fan-in d and is below n(n+1)/2 for d = {dv}; whether graphs of that fan-in need the full bound is not modelled")
                    return
            cap = cap.subs(fanin, 1)
        need = n * (n + 1) / 2
        # with `counter > cap` the loop tolerates cap pops; with `>=` only cap-1
        allowed = cap if getattr(self, "cap_strict", True) else cap - 1
        bad = None
        for k in range(0, 60):
            if sympy.simplify((allowed - need).subs(n, k)) < 0:
                bad = k
                break
        diff = sympy.expand(allowed - need)
        asym_ok = True
        try:
            p = sympy.Poly(diff, n)
            asym_ok = p.LC() > 0 or p.degree() == 0
            roots = [r for r in sympy.real_roots(p)] if p.degree() > 0 else []
            asym_ok = asym_ok and all(r < 59 for r in roots)
        except sympy.PolynomialError:
            asym_ok = bad is None and bool(sympy.limit(diff, n, sympy.oo) >= 0)
        cons = "cap-vs-n(n+1)/2"
        if bad is not None or not asym_ok:
            k = bad if bad is not None else "large n"
            self.violated(
                "R4", MOD, q, cons, cap_expr,
                f"iteration cap `{norm(cap_expr)}` = {cap} allows fewer pops than the n(n+1)/2 that FIFO resolution of "
                f"an acyclic chain declared in reverse order needs (n = {k}): a legal graph is rejected as circular",
                witness=f"a chain of {k} derived quantities declared in reverse dependency order raises CircularDependencyError",
            )
        else:
            self.holds("R4", MOD, q, cons, cap_expr,
                       f"cap = {cap}; cap - n(n+1)/2 = {diff} >= 0 for all n >= 0 (checked n<60, leading term and real roots)")

    def r5(self, mod, sorter, loop, q):
        # the checker = a function called at top level of the sorter before the loop whose body raises MISS
        pre = sorter.body[: sorter.body.index(loop)]
        checker = None
        for s in pre:
            for x in ast.walk(s):
                if isinstance(x, ast.Call) and isinstance(x.func, ast.Name) and x.func.id in mod.functions:
                    f = mod.functions[x.func.id]
                    if any(isinstance(r, ast.Raise) and MISS in norm(r) for r in ast.walk(f)):
                        checker, call = f, x
            if isinstance(s, ast.Raise) and MISS in norm(s):
                checker = sorter
        if checker is None:
            self.violated("R5", MOD, q, "missing-check-before-loop", sorter,
                          "no raise of MissingDependenciesError dominates the resolution loop: a missing name is "
                          "reported as a circular dependency (or loops to the cap)",
                          witness="Model().add_derived('d', fns.add, args=['nope','k2']).get_args() -> CircularDependencyError instead of MissingDependenciesError")
            return
        self.holds("R5", MOD, q, "missing-check-before-loop", call if checker is not sorter else sorter,
                   f"`{checker.name}` is called unconditionally before the loop")
        cq = checker.name
        sc = Scope(checker)
        raises = [r for r in ast.walk(checker) if isinstance(r, ast.Raise) and MISS in norm(r)]
        # (a) all_available = copy of available united with every element's provided, unfiltered
        avail_param, elems_param = [a.arg for a in checker.args.args][:2]

        def all_provided(e: ast.AST) -> bool:
            """e denotes the `provided` sets of every element, unfiltered: `*(el.provided for el in elements)` and the like."""
            if isinstance(e, ast.Starred):
                e = e.value
            if isinstance(e, (ast.GeneratorExp, ast.ListComp)) and len(e.generators) == 1 and not e.generators[0].ifs \
                    and norm(e.generators[0].iter) == elems_param and isinstance(e.generators[0].target, ast.Name):
                return norm(e.elt) == f"{e.generators[0].target.id}.provided"
            return False

        def set_value(e: ast.AST, env: dict[str, frozenset]) -> frozenset | None:
            """abstract value of a set expression over the atoms A (a *copy* of available), A! (available itself), P (all provided)."""
            if isinstance(e, ast.Name):
                return frozenset({"A!"}) if e.id == avail_param else env.get(e.id)
            if isinstance(e, ast.Call) and norm(e.func) in (f"{avail_param}.copy", "set", "frozenset") and (not e.args or norm(e.args[0]) == avail_param) and not e.keywords:
                if norm(e.func) in ("set", "frozenset") and not e.args:
                    return frozenset()
                return frozenset({"A"})
            if isinstance(e, ast.Call) and isinstance(e.func, ast.Attribute) and e.func.attr == "union" and not e.keywords:
                base = set_value(e.func.value, env)
                if base is None:
                    return None
                out = {x.rstrip("!") for x in base}
                for a_ in e.args:
                    if all_provided(a_):
                        out.add("P")
                    else:
                        v_ = set_value(a_, env)
                        if v_ is None:
                            return None
                        out |= {x.rstrip("!") for x in v_}
                return frozenset(out)
            if isinstance(e, ast.BinOp) and isinstance(e.op, ast.BitOr):
                l_, r_ = set_value(e.left, env), set_value(e.right, env)
                return None if l_ is None or r_ is None else frozenset({x.rstrip("!") for x in l_ | r_})
            if isinstance(e, ast.SetComp) and len(e.generators) == 2 and not any(g.ifs for g in e.generators) and norm(e.generators[0].iter) == elems_param \
                    and norm(e.generators[1].iter) == f"{norm(e.generators[0].target)}.provided" and norm(e.elt) == norm(e.generators[1].target):
                return frozenset({"P"})
            return None

        env: dict[str, frozenset] = {}
        for s in strip_docstring(checker.body):
            if isinstance(s, ast.Assign) and isinstance(s.targets[0], ast.Name):
                v_ = set_value(s.value, env)
                if v_ is not None:
                    env[s.targets[0].id] = v_
            elif isinstance(s, ast.AugAssign) and isinstance(s.target, ast.Name) and isinstance(s.op, ast.BitOr) and s.target.id in env:
                v_ = set_value(s.value, env)
                if v_ is not None:
                    env[s.target.id] = frozenset(env[s.target.id] | {x.rstrip("!") for x in v_})
            elif isinstance(s, ast.For) and norm(s.iter) == elems_param and isinstance(s.target, ast.Name):
                el = s.target.id
                for b_ in s.body:
                    t_ = norm(b_)
                    for name in list(env):
                        if t_ in (f"{name}.update({el}.provided)", f"{name} |= {el}.provided"):
                            env[name] = frozenset(env[name] | {"P"})
        cands = [n for n, v_ in env.items() if "P" in v_ or v_ & {"A", "A!"}]
        # the set the payload is computed against
        used_sets = set()
        for n in ast.walk(checker):
            st = subset_test(n) if isinstance(n, ast.expr) else None
            if st:
                used_sets.add(st[1])
            if isinstance(n, ast.Call) and isinstance(n.func, ast.Attribute) and n.func.attr == "difference" and norm(n.func.value).endswith(".required") and n.args:
                used_sets.add(norm(n.args[0]))
            if isinstance(n, ast.BinOp) and isinstance(n.op, ast.Sub) and norm(n.left).endswith(".required"):
                used_sets.add(norm(n.right))
        if len(used_sets) > 1:
            # several sets are compared against: the providable set is the one built from the elements (payload checked against it below)
            best = [u for u in sorted(used_sets) if "P" in (env.get(u) or ())]
            used_sets = set(best[:1]) if best else used_sets
        if len(used_sets) != 1 or not cands:
            self.undecided_ob("R5", MOD, cq, "all-available", checker, "construction of the providable-name set not recognised")
            return
        all_av = used_sets.pop()
        val = frozenset({"A!"}) if all_av == avail_param else env.get(all_av)
        if val is None:
            self.undecided_ob("R5", MOD, cq, "all-available", checker, f"`{all_av}` is not a recognised set construction")
            return
        if val == frozenset({"A", "P"}):
            self.holds("R5", MOD, cq, "all-available", checker, f"{all_av} = copy of {avail_param} U provided of every element (unfiltered)")
        else:
            why = ("the providable set aliases the caller's `available` (no copy): every name becomes available before sorting"
                   if "A!" in val else "not every element's `provided` is added to the providable set" if "P" not in val
                   else f"the caller's `{avail_param}` is not part of the providable set")
            self.violated("R5", MOD, cq, "all-available", checker, why,
                          witness="a complete graph is reported as missing names, or an incomplete one passes the check")

        # (b) payload: {el.name: sorted(el.required - ALL)} for exactly the elements whose difference is non-empty
        def is_diff(e: ast.AST, el: str) -> bool:
            return norm(e) in (f"{el}.required.difference({all_av})", f"{el}.required - {all_av}")

        def nonempty_guard(tests: list[tuple[ast.AST, bool]], el: str):
            """-> (ok, walrus name or None): the tests say exactly 'required is not a subset of ALL'."""
            if len(tests) != 1:
                return False, None
            g, pol = tests[0]
            st = subset_test(g)
            if st and st[0] == el and st[1] == all_av and st[2] != pol:
                return True, None
            if pol and isinstance(g, ast.NamedExpr) and is_diff(g.value, el):
                return True, g.target.id
            if pol and is_diff(g, el):
                return True, None
            return False, None

        ok_payload = False
        ok_guard = False
        self.payload_node = checker
        for n in ast.walk(checker):
            if isinstance(n, ast.Assign) and isinstance(n.targets[0], ast.Subscript):
                key = norm(n.targets[0].slice)
                el = key[:-len(".name")] if key.endswith(".name") else None
                if el is None:
                    continue
                self.payload_node = n
                g_ok, wal = nonempty_guard(sc.guards(n), el)
                ok_guard = ok_guard or g_ok
                v = n.value
                if g_ok and isinstance(v, ast.Call) and norm(v.func) == "sorted" and len(v.args) == 1 and not v.keywords \
                        and (is_diff(v.args[0], el) or (wal is not None and norm(v.args[0]) == wal)):
                    ok_payload = True
            elif isinstance(n, ast.DictComp) and len(n.generators) == 1 and norm(n.generators[0].iter) == elems_param and isinstance(n.generators[0].target, ast.Name):
                el = n.generators[0].target.id
                self.payload_node = n
                g_ok, wal = nonempty_guard([(t, True) for t in n.generators[0].ifs], el)
                ok_guard = ok_guard or g_ok
                v = n.value
                if g_ok and norm(n.key) == f"{el}.name" and isinstance(v, ast.Call) and norm(v.func) == "sorted" and len(v.args) == 1 and not v.keywords \
                        and (is_diff(v.args[0], el) or (wal is not None and norm(v.args[0]) == wal)):
                    ok_payload = True
        if ok_guard and ok_payload:
            self.holds("R5", MOD, cq, "payload", self.payload_node,
                       "per element: sorted(required - providable), recorded only when required is not a subset")
        else:
            self.violated("R5", MOD, cq, "payload", self.payload_node,
                          "the missing-dependency payload is not `sorted(element.required - providable)` keyed by the "
                          "element's name under the guard `not required <= providable`",
                          witness="the error lists names that exist, or omits the ones that do not")
        # (c) raise guarded only by non-emptiness of the payload
        r = raises[0]
        gs = sc.guards(r)
        if len(gs) == 1 and gs[0][1] and isinstance(gs[0][0], ast.Name):
            self.holds("R5", MOD, cq, "raise-iff-nonempty", r, f"raised iff `{gs[0][0].id}` is non-empty")
        else:
            self.undecided_ob("R5", MOD, cq, "raise-iff-nonempty", r, "guard of the raise not recognised")

    def r6(self, mod, sorter):
        targets = {sorter.name, "_create_cache"}
        for f in mod.functions.values():
            if isinstance(f, ast.FunctionDef) and f.name in targets:
                pass
        n_sites = 0
        for qual, f in mod.functions.items():
            sc = None
            for x in walk_no_nested(f):
                if isinstance(x, ast.Call) and ((isinstance(x.func, ast.Name) and x.func.id in targets) or
                                                (is_self_attr(x.func) and x.func.attr in targets)):
                    n_sites += 1
                    sc = sc or Scope(f)
                    swallowed = None
                    for tr, fld in sc.enclosing_with_field(x, ast.Try):
                        if fld != "body":
                            continue
                        for h in tr.handlers:
                            names = [] if h.type is None else [norm(e) for e in (h.type.elts if isinstance(h.type, ast.Tuple) else [h.type])]
                            catches = h.type is None or any(nm.split(".")[-1] in ("Exception", "BaseException", CIRC, MISS) for nm in names)
                            reraises = any(isinstance(y, ast.Raise) for y in ast.walk(h))
                            if catches and not reraises:
                                swallowed = h
                    cons = f"call {norm(x.func)} in {qual}"
                    if swallowed is not None:
                        self.violated("R6", MOD, qual, cons, x,
                                      f"`except {norm(swallowed.type) if swallowed.type else ''}` around the call swallows the "
                                      "dependency errors: numbers (or nothing) are returned for a bad graph")
                    else:
                        self.holds("R6", MOD, qual, cons, x, "no enclosing handler catches the dependency errors")
        self.analysed["sorter_call_sites"] = n_sites

    def r7(self, mod, cc, sorter, order_var):
        q = "Model._create_cache"
        call = self.sort_call
        kw = {k.arg: k.value for k in call.keywords}
        params = [a.arg for a in sorter.args.args]
        for p, a in zip(params, call.args):
            kw[p] = a
        elements = kw.get(params[1]) if len(params) > 1 else None
        if isinstance(elements, ast.Name):
            elements = loop_as_listcomp(cc, elements.id) or elements
        if not isinstance(elements, ast.ListComp):
            self.undecided_ob("R7", MOD, q, "elements-argument", call, "elements argument is not a list comprehension")
            return
        gen = elements.generators[0]
        src = gen.iter
        if gen.ifs or len(elements.generators) != 1:
            self.violated("R7", MOD, q, "elements-unfiltered", elements, "components are filtered before sorting")
        else:
            self.holds("R7", MOD, q, "elements-unfiltered", elements, "one Dependency per component, no filter")
        # source container: X.items() where X = union of the component containers
        base = src.func.value if isinstance(src, ast.Call) and isinstance(src.func, ast.Attribute) else src
        union_txt = None
        if isinstance(base, ast.Name):
            for s in cc.body:
                if isinstance(s, ast.Assign) and isinstance(s.targets[0], ast.Name) and s.targets[0].id == base.id:
                    union_txt = s.value
        if union_txt is None:
            self.undecided_ob("R7", MOD, q, "component-union", elements, "container handed to the sorter not recognised")
            return
        parts = []

        def flat(e):
            if isinstance(e, ast.BinOp) and isinstance(e.op, ast.BitOr):
                flat(e.left)
                flat(e.right)
            else:
                parts.append(e)

        flat(union_txt)
        ptxt = [norm(p) for p in parts]
        for need in ("self._derived", "self._reactions", "self._surrogates"):
            if need in ptxt:
                self.holds("R7", MOD, q, f"sorted:{need}", union_txt, "component class is handed to the sorter")
            else:
                self.violated("R7", MOD, q, f"sorted:{need}", union_txt,
                              f"{need} is not handed to the sorter: its members are never ordered/evaluated",
                              witness="a derived quantity depending on a member of that class sees a missing name")
        # initial assignments of variables and of parameters: a union member that collects exactly the assignment-valued entries
        from ..blocks import partition_summary

        ps = partition_summary(cc)
        ia_ok = {"_variables": False, "_parameters": False}
        for nm in [p for p in parts if isinstance(p, ast.Name)]:
            for cont, attr, is_ia in ps.get(nm.id, ()):
                if is_ia and cont in ia_ok:
                    ia_ok[cont] = True
        for fld, ok in ia_ok.items():
            if ok:
                self.holds("R7", MOD, q, f"sorted:initial-assignments-of{fld}", union_txt, "initial assignments are handed to the sorter")
            else:
                self.violated("R7", MOD, q, f"sorted:initial-assignments-of{fld}", union_txt,
                              f"initial assignments of self.{fld} are not handed to the sorter")
        # Dependency shape: required=set(v.args); provided = {k} / set(v.outputs) for surrogates
        elt = elements.elt
        v = norm(gen.target.elts[1]) if isinstance(gen.target, ast.Tuple) else "v"
        kk = norm(gen.target.elts[0]) if isinstance(gen.target, ast.Tuple) else "k"

        def sur_test(t: ast.AST):
            """True: `isinstance(v, AbstractSurrogate)`; False: its negation; None: something else."""
            pol = True
            while isinstance(t, ast.UnaryOp) and isinstance(t.op, ast.Not):
                pol, t = not pol, t.operand
            if isinstance(t, ast.Call) and norm(t.func) == "isinstance" and len(t.args) == 2 and norm(t.args[0]) == v and norm(t.args[1]).endswith("AbstractSurrogate"):
                return pol
            return None

        # cases: (is-surrogate | None for unconditional, name text, required text, provided text)
        cases: list[tuple[bool | None, str | None, str | None, str | None]] = []

        def dep_cases(e: ast.AST, cond: bool | None) -> bool:
            if isinstance(e, ast.IfExp):
                st_ = sur_test(e.test)
                return st_ is not None and cond is None and dep_cases(e.body, st_) and dep_cases(e.orelse, not st_)
            if isinstance(e, ast.Call) and call_name(e).endswith("Dependency"):
                k = {x.arg: x.value for x in e.keywords}
                prov = k.get("provided")
                if isinstance(prov, ast.IfExp) and cond is None:
                    st_ = sur_test(prov.test)
                    if st_ is None:
                        return False
                    for c_, p_ in ((st_, prov.body), (not st_, prov.orelse)):
                        cases.append((c_, norm(k.get("name")), norm(k.get("required")), norm(p_)))
                    return True
                cases.append((cond, norm(k.get("name")), norm(k.get("required")), norm(prov)))
                return True
            return False

        shape_ok = dep_cases(elt, None) and bool(cases)
        for c_, nm_, req_, prov_ in cases:
            if nm_ != kk or req_ != f"set({v}.args)":
                shape_ok = False
            if c_ is True and prov_ != f"set({v}.outputs)":
                shape_ok = False
            if c_ is False and prov_ != "{" + kk + "}":
                shape_ok = False
            if c_ is None:
                shape_ok = False  # surrogates provide their outputs, everything else its own name: one unconditional form cannot be both
        sur_ok = any(c_ is True for c_, *_ in cases) and any(c_ is False for c_, *_ in cases)
        if shape_ok and sur_ok:
            self.holds("R7", MOD, q, "dependency-shape", elt, "required=set(args); provided={name}, or set(outputs) for surrogates")
        else:
            self.violated("R7", MOD, q, "dependency-shape", elt,
                          "a Dependency is not built as required=set(args), provided={name} (surrogates: set(outputs))",
                          witness="a component depending on a surrogate output is reported as missing a name")
        # R8: available == keys of the evaluation mapping
        def parts_of(name):
            for st in cc.body:
                if isinstance(st, (ast.Assign, ast.AnnAssign)) and norm(getattr(st, "target", None) or st.targets[0]) == name and st.value is not None:
                    out = []

                    def flat(e):
                        if isinstance(e, ast.BinOp) and isinstance(e.op, ast.BitOr):
                            flat(e.left)
                            flat(e.right)
                        else:
                            t = norm(e)
                            t = t[4:-1] if t.startswith("set(") and t.endswith(")") else t
                            if t.startswith("{") and "time" in t:
                                t = "time"
                            out.append(t)

                    flat(st.value)
                    return st, sorted(out)
            return None, []

        av_name = norm(kw.get(params[0])) if params else "available"
        st_av, av_parts = parts_of(av_name)
        ev_map = None
        for st in cc.body:
            if isinstance(st, ast.For) and norm(st.iter) == order_var:
                for c in ast.walk(st):
                    if isinstance(c, ast.Call) and isinstance(c.func, ast.Attribute) and c.func.attr == "calculate_inpl" and len(c.args) == 2:
                        ev_map = norm(c.args[1])
        st_ev, ev_parts = parts_of(ev_map) if ev_map else (None, [])
        if st_av is not None and st_ev is not None and av_parts == ev_parts:
            self.holds("R8", MOD, q, "available-equals-evaluation-keys", st_av, f"{av_name} and {ev_map} are both built from {av_parts}")
        elif st_av is None or st_ev is None:
            self.undecided_ob("R8", MOD, q, "available-equals-evaluation-keys", cc, "construction of the available-name set / evaluation mapping not recognised")
        else:
            self.violated("R8", MOD, q, "available-equals-evaluation-keys", st_av,
                          f"initially available names are {av_parts} but components are evaluated on {ev_parts}",
                          witness="a rate law that takes `time` (or a data set): MissingDependenciesError lists a name that exists")
        # evaluation loop follows the order
        ev = None
        for s in cc.body:
            if isinstance(s, ast.For) and norm(s.iter) == order_var and isinstance(s.target, ast.Name):
                if any(isinstance(x, ast.Call) and isinstance(x.func, ast.Attribute) and x.func.attr == "calculate_inpl" for x in ast.walk(s)):
                    ev = s
        if ev is None:
            self.violated("R7", MOD, q, "evaluation-follows-order", cc,
                          f"no loop `for name in {order_var}` evaluating the components in sorted order was found")
        else:
            # the evaluation is the unconditional first statement of every iteration (later statements may classify the name)
            first_ = ev.body[0]
            simple = isinstance(first_, ast.Expr) and isinstance(first_.value, ast.Call) and isinstance(first_.value.func, ast.Attribute) \
                and first_.value.func.attr == "calculate_inpl" and first_.value.args and norm(first_.value.args[0]) == norm(ev.target) and not ev.orelse \
                and sum(1 for x in ast.walk(ev) if isinstance(x, ast.Call) and isinstance(x.func, ast.Attribute) and x.func.attr == "calculate_inpl") == 1
            if simple:
                self.holds("R7", MOD, q, "evaluation-follows-order", ev, f"`{norm(ev.body[0])}` for every name in {order_var}, in order")
            else:
                self.violated("R7", MOD, q, "evaluation-follows-order", ev, "the evaluation loop skips or reorders components")

    # ------------------------------------------------------------------
    def must_fire(self):
        S = "_sort_dependencies"
        return [
            Variant("reintroduce-shortcut-append-and-break", MOD, S,
                    "raise CircularDependencyError(missing={dependency.name: dependency.required.difference(available)})",
                    "order.append(last_name)\n                break",
                    expect="R1|", quick=True),
            Variant("shortcut-break-only", MOD, S,
                    "raise CircularDependencyError(missing={dependency.name: dependency.required.difference(available)})",
                    "break", expect="R2|", quick=True),
            Variant("early-return-for-single-element", MOD, S, "    order = []\n", "    if len(elements) < 2:\n        return [dependency.name for dependency in elements]\n    order = []\n", expect="R1|", quick=True),
            Variant("drop-sortable-check", MOD, S, "    _check_if_is_sortable(available, elements)\n", "", expect="R5|", quick=True),
            Variant("cap-linear", MOD, S, "max_iterations = len(elements) ** 2", "max_iterations = len(elements)", expect="R4|", quick=True),
            Variant("cap-linear-in-fan-in", MOD, S, "max_iterations = len(elements) ** 2",
                    "max_iterations = len(elements) * (2 + max((len(dep.required) for dep in elements), default=0))", expect="R4|"),
            Variant("cap-half-square", MOD, S, "max_iterations = len(elements) ** 2", "max_iterations = len(elements) ** 2 // 2", expect="R4|"),
            Variant("no-available-update", MOD, S, "            available.update(dependency.provided)\n", "", expect="R1|"),
            Variant("counter-only-on-retry", MOD, S,
                    "            queue.put(dependency)\n            last_name = dependency.name\n        i += 1",
                    "            queue.put(dependency)\n            last_name = dependency.name\n            i += 1", expect="R3|") ,
            Variant("counter-only-on-success", MOD, S,
                    "            order.append(dependency.name)\n", "            order.append(dependency.name)\n            i += 1\n            continue\n",
                    expect="R3|"),
            Variant("guard-negated", MOD, S, "if dependency.required.issubset(available):", "if not dependency.required.issubset(available):", expect="R1|"),
            Variant("guard-wrong-direction", MOD, S, "if dependency.required.issubset(available):", "if available.issubset(dependency.required):", expect="R1|"),
            Variant("silent-return-at-cap", MOD, S, "raise CircularDependencyError(missing=missing)", "return order", expect="R"),
            Variant("payload-provided", MOD, "_check_if_is_sortable", "sorted(dependency.required.difference(all_available))",
                    "sorted(dependency.required.difference(available))", expect="R5|"),
            Variant("payload-reversed", MOD, "_check_if_is_sortable", "sorted(dependency.required.difference(all_available))",
                    "sorted(all_available.difference(dependency.required))", expect="R5|"),
            Variant("no-copy", MOD, "_check_if_is_sortable", "all_available = available.copy()", "all_available = available", expect="R5|"),
            Variant("swallow-in-get_args", MOD, "Model.get_initial_conditions",
                    "        cache = self._create_cache()", "        try:\n            cache = self._create_cache()\n        except Exception:\n            return {}", expect="R6|"),
            Variant("time-not-available", MOD, "Model._create_cache", "set(base_parameter_values) | set(base_variable_values) | set(self._data) | {'time'}", "set(base_parameter_values) | set(base_variable_values) | set(self._data)", expect="R8|", quick=True),
            Variant("skip-surrogates", MOD, "Model._create_cache",
                    "to_sort = initial_assignments | self._derived | self._reactions | self._surrogates",
                    "to_sort = initial_assignments | self._derived | self._reactions", expect="R7|"),
            Variant("surrogate-provides-name", MOD, "Model._create_cache", "provided=set(v.outputs)", "provided={k}", expect="R7|"),
            Variant("filter-elements", MOD, "Model._create_cache", "for k, v in to_sort.items()]", "for k, v in to_sort.items() if v.args]", expect="R7|"),
        ]

    def must_stay_silent(self):
        S = "_sort_dependencies"
        return [
            Variant("subset-operator", MOD, S, "if dependency.required.issubset(available):", "if dependency.required <= available:", quick=True),
            Variant("superset-form", MOD, S, "if dependency.required.issubset(available):", "if available.issuperset(dependency.required):"),
            Variant("ior-update", MOD, S, "available.update(dependency.provided)", "available |= dependency.provided"),
            Variant("bigger-cap", MOD, S, "max_iterations = len(elements) ** 2", "max_iterations = len(elements) ** 2 + len(elements)"),
            Variant("triangular-cap", MOD, S, "max_iterations = len(elements) ** 2", "max_iterations = len(elements) * (len(elements) + 1) // 2 + 1"),
            Variant("rename-element", MOD, S, r"\bdependency\b", "dep", count=0, regex=True),
            Variant("difference-operator", MOD, "_check_if_is_sortable", "sorted(dependency.required.difference(all_available))",
                    "sorted(dependency.required - all_available)"),
        ]


CHECK = C02
