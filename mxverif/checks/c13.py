"""C13 - initial assignments resolve once at t=0; static/dynamic split (DESIGN 4/C13, rules N1-N5)."""

from __future__ import annotations

import ast

from ..core import AnalysisError, Check, norm, strip_docstring, walk_no_nested
from ..blocks import partition_summary, run_blocks, subset_atom
from ..interp import Sym, SymInterp
from ..variants import Variant

MOD = "model.py"
SIM = "simulator.py"
CC = "Model._create_cache"


def assigns(fn: ast.FunctionDef) -> dict[str, list[ast.stmt]]:
    out: dict[str, list[ast.stmt]] = {}
    for s in walk_no_nested(fn):
        if isinstance(s, ast.Assign) and isinstance(s.targets[0], ast.Name):
            out.setdefault(s.targets[0].id, []).append(s)
        elif isinstance(s, ast.AnnAssign) and isinstance(s.target, ast.Name) and s.value is not None:
            out.setdefault(s.target.id, []).append(s)
    return out


def flat_or(e: ast.AST) -> list[ast.AST]:
    if isinstance(e, ast.BinOp) and isinstance(e.op, ast.BitOr):
        return flat_or(e.left) + flat_or(e.right)
    return [e]


class C13(Check):
    pid = "C13"
    title = "Initial assignments resolve once at t=0; derived parameters are state-free"
    rules = {
        "N8": "(shared with C07) generated model functions treat assignment-defined parameters as the model does: resolved once (emitted among the parameter constants unless free), not recomputed from the state they are called with (G2, G7 of C07)",
        "N7": "(shared with C03) the resolved values are recomputed whenever the model is edited: every mutator resets the memoised cache and nothing but the cache builder writes into it (I1, I5 of C03)",
        "N1": "exactly one evaluation pass in the cache builder, over the sorter's order, on plain parameters | plain initial values | "
              "data | time = 0.0; initial conditions are read from that pass for every variable; plain values exclude, and the sorted "
              "set includes, the initial assignments of both variables and parameters",
        "N2": "classification runs in the sorter's order; a derived quantity is static iff ALL its arguments are in the growing parameter "
              "closure (which starts as the parameter names and gains each static derived); reactions and surrogates are dynamic; the same "
              "predicate decides whether a computed coefficient is frozen",
        "N3": "frozen values = plain parameters + every static parameter/derived taken from the single pass; queries recompute exactly the dynamic order",
        "N4": "derived parameters / derived variables partition the derived quantities by complementary membership in the frozen-value table",
        "N6": "the parameter record that simulations store per segment and results re-apply (get_parameter_values) contains exactly the "
              "plain parameters: re-applying it with update_parameters must not replace an initial assignment by its number",
        "N5": "a Simulator without explicit y0 starts from model.get_initial_conditions()",
    }
    floors = {"N8": 3, "N7": 20, "N1": 6, "N2": 6, "N3": 3, "N4": 2, "N5": 1, "N6": 2}
    decided = [
        "initial assignments are evaluated once, at time zero, after everything they name (sorter order), from the declared initial state",
        "a derived quantity is a derived parameter exactly when every argument is (transitively) a parameter; such values are frozen, all others recomputed per state",
        "default simulation start = resolved initial conditions",
    ]
    undecided = ["the numeric values themselves", "correctness of the sorter's order (C02)"]
    assumptions = ["the sorter returns a topological order (C02)"]

    def run(self) -> None:
        mod = self.prog.module(MOD)
        self.borrow("C03", ("I1", "I5"), "N7")
        self.borrow("C07", ("G2", "G7"), "N8")
        cc = mod.func(CC)
        a = assigns(cc)
        body = strip_docstring(cc.body)
        # locate the sorter result
        order = None
        for name, ss in a.items():
            for s in ss:
                if isinstance(s.value, ast.Call) and norm(s.value.func) == "_sort_dependencies":
                    order = name
        if order is None:
            raise AnalysisError("_create_cache: sorter call not found")
        # ---------------- N1
        dep = None
        for name, ss in a.items():
            parts = [norm(p) for p in flat_or(ss[0].value)]
            if any(p.startswith("{'time':") for p in parts):
                dep, dparts, dnode = name, parts, ss[0]
        if dep is None:
            raise AnalysisError("_create_cache: evaluation mapping (with 'time') not found")
        want = {"base_parameter_values", "base_variable_values", "self._data", "{'time': 0.0}"}
        if set(dparts) == want:
            self.holds("N1", MOD, CC, "evaluation-mapping", dnode, f"{dep} = plain parameters | plain initial values | data | time 0.0")
        else:
            tpart = [p for p in dparts if p.startswith("{'time'")]
            self.violated("N1", MOD, CC, "evaluation-mapping", dnode,
                          f"the single evaluation pass runs on `{' | '.join(dparts)}` instead of plain parameters | plain initial values | data | {{'time': 0.0}}",
                          witness="an initial assignment depending on `time` (or on a data set / plain value) is resolved from the wrong value"
                          if tpart != ["{'time': 0.0}"] else "a name class is missing from the pass: KeyError or a stale value")
        # every name of the order is evaluated exactly once, unconditionally, in the sorter's order (block abstraction, one iteration per block)
        def role_names():
            return {"static": "static_order", "dyn": "dyn_order", "closure": "all_parameter_names", "table": "all_parameter_values", "dep": dep}

        eval_loops = [s for s in body if isinstance(s, ast.For) and any(
            isinstance(c, ast.Call) and isinstance(c.func, ast.Attribute) and c.func.attr in ("calculate_inpl", "calculate") and dep in norm(c) for c in ast.walk(s))
            and "stoichiometry" not in norm(s.iter) and "stoichiometries" not in norm(s.iter) and "_reactions" not in norm(s.iter) and "_surrogates" not in norm(s.iter)]
        passes = eval_loops
        good_pass = False
        if len(eval_loops) == 1 and norm(eval_loops[0].iter) == order and isinstance(eval_loops[0].target, ast.Name):
            lp_ = eval_loops[0]
            nm_ = lp_.target.id
            res = run_blocks(lp_, role_names())
            first_ = lp_.body[0]
            first_ok = isinstance(first_, ast.Expr) and norm(first_.value) == f"to_sort[{nm_}].calculate_inpl({nm_}, {dep})"
            good_pass = first_ok and all(ends and all(e.evaluated == 1 for e in ends) for ends in res.values())
        if good_pass:
            self.holds("N1", MOD, CC, "single-pass-in-order", passes[0], f"one pass `for name in {order}` evaluating each component in place, first thing in every iteration")
        else:
            self.violated("N1", MOD, CC, "single-pass-in-order", passes[0] if passes else cc,
                          f"{len(passes)} evaluation pass(es) / not over the sorter's order unfiltered",
                          witness="an initial assignment that names a derived quantity or a rate is evaluated before it (KeyError) or twice")
        ic = a.get("initial_conditions", [None])[0]
        if ic is not None and norm(ic.value) in (f"{{k: cast(float, {dep}[k]) for k in self._variables}}", f"{{k: {dep}[k] for k in self._variables}}"):
            self.holds("N1", MOD, CC, "initial-conditions-from-pass", ic, f"initial_conditions[k] = {dep}[k] for every variable, declaration order")
        else:
            self.violated("N1", MOD, CC, "initial-conditions-from-pass", ic or cc, "initial conditions are not read from the evaluation pass for every variable",
                          witness="a variable with an initial assignment starts from the assignment object / a variable is missing from y0")
        parts13 = partition_summary(cc)
        for nm, cont, attr in (("base_parameter_values", "_parameters", "value"), ("base_variable_values", "_variables", "initial_value")):
            s = a.get(nm, [None])[0]
            if parts13.get(nm) == {(cont, attr, False)}:
                self.holds("N1", MOD, CC, f"plain-{nm}", s or cc, f"{nm}: entries of self.{cont} whose {attr} is not an InitialAssignment")
            else:
                self.violated("N1", MOD, CC, f"plain-{nm}", s or cc, f"{nm} is not 'all entries of self.{cont} that are not initial assignments' ({sorted(parts13.get(nm, ()))})")
        s = a.get("initial_assignments", [None])[0]
        if parts13.get("initial_assignments") == {("_variables", "initial_value", True), ("_parameters", "value", True)}:
            self.holds("N1", MOD, CC, "assignments-of-both-kinds", s or cc, "initial assignments of variables and of parameters are collected")
        else:
            self.violated("N1", MOD, CC, "assignments-of-both-kinds", s or cc, "initial assignments of variables and parameters are not both collected for sorting/evaluation",
                          witness="a parameter defined by an initial assignment is never computed")
        # ---------------- N2
        cl = [s for s in body if isinstance(s, ast.For) and "static_order" in norm(s) and "dyn_order" in norm(s) and any(
            isinstance(c, ast.Call) and norm(c.func) in ("static_order.append", "dyn_order.append") for c in ast.walk(s))]
        if len(cl) != 1 or norm(cl[0].iter) != order or not isinstance(cl[0].target, ast.Name):
            self.violated("N2", MOD, CC, "classification-in-order", cl[0] if cl else cc, f"classification loop over `{order}` not found: the static/dynamic split does not follow dependency order",
                          witness="derived a (from parameter k) declared after derived b = f(a): b is classified before a and becomes state-dependent / frozen wrongly")
        else:
            lp = cl[0]
            self.holds("N2", MOD, CC, "classification-in-order", lp, f"classification iterates `{order}` (dependency order)")
            nm = norm(lp.target)
            res = run_blocks(lp, role_names())
            d_ends = res["D"]
            want_of = {f"self._derived[{nm}].args <= all_parameter_names", f"self._derived.get({nm}).args <= all_parameter_names", f"to_sort[{nm}].args <= all_parameter_names"}
            okd = bool(d_ends) and {e.subset for e in d_ends} == {"T", "F"} and all(e.subset_of in want_of for e in d_ends) and all(
                (e.static, e.dyn, e.closure) == ((1, 0, 1) if e.subset == "T" else (0, 1, 0)) for e in d_ends)
            if okd:
                self.holds("N2", MOD, CC, "static-iff-all-args-parameters", lp, "static iff all(args in closure); the closure gains each static derived")
            else:
                self.violated("N2", MOD, CC, "static-iff-all-args-parameters", lp,
                              "a derived quantity is not classified static exactly when ALL its arguments are in the growing parameter closure",
                              witness="derived d = f(k, x) with parameter k and variable x is frozen at its t=0 value (any() instead of all()), or d2 = g(d1) of a static d1 is recomputed")
            if all(res[b_] and all((e.static, e.dyn, e.closure) == (0, 1, 0) for e in res[b_]) for b_ in ("R", "S")):
                self.holds("N2", MOD, CC, "fluxes-dynamic", lp, "reactions and surrogates are always recomputed")
            else:
                self.violated("N2", MOD, CC, "fluxes-dynamic", lp, "reactions / surrogates are not unconditionally dynamic")
            if all(res[b_] and all((e.static, e.dyn) == (1, 0) for e in res[b_]) for b_ in ("IAv", "IAp")):
                self.holds("N2", MOD, CC, "assignments-static", lp, "assignment-defined variables/parameters are static (computed once)")
            else:
                self.violated("N2", MOD, CC, "assignments-static", lp, "assignment-defined values are not static: they would be recomputed from the current state",
                              witness="k = InitialAssignment(f(x)) changes with x during a simulation")
        s = a.get("all_parameter_names", [None])[0]
        if s is not None and (norm(s.value) == "set(self._parameters)" or (norm(s.value) == "set(parameter_names)" and norm(a.get("parameter_names", [s])[0].value) == "set(self._parameters)")):
            self.holds("N2", MOD, CC, "closure-starts-at-parameters", s, "closure initialised with the parameter names (plain and assignment-defined)")
        else:
            self.violated("N2", MOD, CC, "closure-starts-at-parameters", s or cc, "the parameter closure does not start as the set of parameter names")
        # coefficients: per stoichiometry entry, from the path summaries of the innermost loop body
        fills = [l for l in ast.walk(cc) if isinstance(l, ast.For) and isinstance(l.target, ast.Tuple) and len(l.target.elts) == 2
                 and any(isinstance(x, ast.Call) and isinstance(x.func, ast.Attribute) and x.func.attr == "calculate" for x in ast.walk(l))
                 and not any(isinstance(x, ast.For) for x in l.body) and "stoich" in norm(l)]
        ok_sites = 0
        bad_site = None
        for l in fills:
            cpd, fac = norm(l.target.elts[0]), norm(l.target.elts[1])
            o_ = SymInterp().block(l.body, [Sym()])
            for stp in list(o_.normal) + list(o_.continues):
                is_der = [p_ for c, p_ in stp.conds if c == f"isinstance({fac}, Derived)"]
                sub = None
                for c, p_ in stp.conds:
                    try:
                        sa = subset_atom(ast.parse(c, mode="eval").body)
                    except SyntaxError:
                        sa = None
                    if sa == (f"{fac}.args", "all_parameter_names"):
                        sub = p_
                    elif c.startswith("any("):
                        sub = "any"
                stores = stp.stores()
                static_t = [v_ for k_, v_ in stores if k_.startswith(f"stoich_by_compounds.setdefault({cpd}, {{}})[") or k_.startswith(f"stoich_by_compounds[{cpd}][")]
                dyn_t = [v_ for k_, v_ in stores if k_.startswith(f"dyn_stoich_by_compounds.setdefault({cpd}, {{}})[") or k_.startswith(f"dyn_stoich_by_compounds[{cpd}][")]
                if is_der and is_der[-1]:
                    good = (sub is True and static_t == [f"{fac}.calculate({dep})"] and not dyn_t) or (sub is False and dyn_t == [fac] and not static_t)
                elif is_der:
                    good = static_t == [fac] and not dyn_t
                else:
                    good = False
                if not good:
                    bad_site = l
            if bad_site is not l:
                ok_sites += 1
        if fills and bad_site is None and ok_sites >= 1:
            self.holds("N2", MOD, CC, "coefficients-same-predicate", fills[0], f"{ok_sites} coefficient site(s): frozen iff all args in the closure, else kept as a state-dependent coefficient")
        else:
            self.violated("N2", MOD, CC, "coefficients-same-predicate", bad_site or cc, "computed coefficients are not frozen by the same all-args-are-parameters predicate",
                          witness="a coefficient depending on a variable is frozen at its t=0 value")
        # ---------------- N3
        s = a.get("all_parameter_values", [None])[0]
        fl = [l for l in body if isinstance(l, ast.For) and norm(l.iter) == "static_order" and isinstance(l.target, ast.Name)]
        frozen_forms = (f"cast(float, {dep}[{{n}}])", f"{dep}[{{n}}]", f"float({dep}[{{n}}])")
        starts = from_pass = False
        node_f = s or cc
        if s is not None and norm(s.value) in ("dict(base_parameter_values)", "base_parameter_values.copy()", "{**base_parameter_values}") and len(fl) == 1:
            starts = True
            nm3 = fl[0].target.id
            res3 = run_blocks(fl[0], role_names(), blocks=("IAv", "IAp", "D"))
            from_pass = all(res3[b_] for b_ in ("IAp", "D")) and all(e.frozen in [f_.format(n=nm3) for f_ in frozen_forms] for b_ in ("IAp", "D") for e in res3[b_]) \
                and all(e.frozen == "" for e in res3["IAv"])
            node_f = fl[0]
        elif s is not None and isinstance(s.value, ast.BinOp) and isinstance(s.value.op, ast.BitOr) and norm(s.value.left) == "base_parameter_values" and isinstance(s.value.right, ast.DictComp):
            starts = True
            dc = s.value.right
            g = dc.generators[0]
            nm3 = norm(g.target)
            filt = [norm(i) for i in g.ifs]
            from_pass = len(dc.generators) == 1 and norm(g.iter) == "static_order" and norm(dc.key) == nm3 and norm(dc.value) in [f_.format(n=nm3) for f_ in frozen_forms] \
                and filt in ([f"{nm3} not in self._variables"], [f"{nm3} in self._parameters or {nm3} in self._derived"], [f"{nm3} in self._derived or {nm3} in self._parameters"])
            node_f = s
        if starts:
            self.holds("N3", MOD, CC, "frozen-starts-at-plain", s, "frozen values start as a copy of the plain parameter values")
        else:
            self.violated("N3", MOD, CC, "frozen-starts-at-plain", s or cc, "frozen values do not start from the plain parameter values")
        if from_pass:
            self.holds("N3", MOD, CC, "frozen-from-pass", node_f, "every static parameter/derived is frozen at its value from the single pass")
        else:
            self.violated("N3", MOD, CC, "frozen-from-pass", node_f, "static values are not all frozen from the single evaluation pass",
                          witness="a derived parameter is missing from get_args (KeyError) or recomputed")
        ga = mod.func("Model._get_args")
        lp = [l for l in strip_docstring(ga.body) if isinstance(l, ast.For) and norm(l.iter) == "cache.dyn_order"]
        if lp and [norm(b) for b in lp[0].body] == [f"containers[{norm(lp[0].target)}].calculate_inpl({norm(lp[0].target)}, args)"] and "cache.all_parameter_values" in norm(ga):
            self.holds("N3", MOD, "Model._get_args", "recompute-exactly-dynamic", lp[0], "queries start from the frozen values and recompute exactly cache.dyn_order")
        else:
            self.violated("N3", MOD, "Model._get_args", "recompute-exactly-dynamic", ga, "queries do not recompute exactly the dynamic order on top of the frozen values")
        # ---------------- N4
        gp, gv = mod.func("Model.get_derived_parameters"), mod.func("Model.get_derived_variables")
        rp, rv = norm(gp.body[-1]), norm(gv.body[-1])
        rp, rv = rp.replace("self._derived.items()", "derived.items()"), rv.replace("self._derived.items()", "derived.items()")
        if rp == "return {k: v for k, v in derived.items() if k in cache.all_parameter_values}" and \
                rv == "return {k: v for k, v in derived.items() if k not in cache.all_parameter_values}":
            self.holds("N4", MOD, "Model.get_derived_parameters", "partition", gp, "k in frozen table")
            self.holds("N4", MOD, "Model.get_derived_variables", "partition", gv, "k not in frozen table (complement)")
        else:
            self.violated("N4", MOD, "Model.get_derived_parameters", "partition", gp,
                          "derived parameters / variables are not complementary filters of the derived quantities on the frozen-value table",
                          witness="a derived quantity is reported as both, or as neither")
        # ---------------- N5
        init = self.prog.module(SIM).func("Simulator.__init__")
        y = [s for s in strip_docstring(init.body) if isinstance(s, ast.Assign) and norm(s.targets[0]) == "self.y0"]
        if y and norm(y[0].value) == "model.get_initial_conditions() if y0 is None else y0":
            self.holds("N5", SIM, "Simulator.__init__", "default-y0", y[0], "y0 defaults to the resolved initial conditions")
        else:
            self.violated("N5", SIM, "Simulator.__init__", "default-y0", y[0] if y else init, "default start state is not model.get_initial_conditions()",
                          witness="Simulator(model).y0 ignores initial assignments")

        # ---------------- N6
        gpv = mod.func("Model.get_parameter_values")
        r = [x for x in walk_no_nested(gpv) if isinstance(x, ast.Return)][-1]
        t = norm(r.value)
        if t in ("dict(cache.base_parameter_values)", "cache.base_parameter_values.copy()", "cache.base_parameter_values", "{**cache.base_parameter_values}"):
            self.holds("N6", MOD, "Model.get_parameter_values", "plain-parameters-only", r, "returns (a copy of) the plain parameter values; assignment-defined parameters are not in the record")
        else:
            self.violated("N6", MOD, "Model.get_parameter_values", "plain-parameters-only", r,
                          f"`{t[:80]}` is not the table of plain parameter values: if it includes parameters defined by an initial assignment, the record "
                          "that Simulation re-applies with update_parameters overwrites the assignment with a number",
                          witness="k = InitialAssignment(f(k0)); simulate; read result.fluxes; update_parameter('k0', ..): k no longer follows k0")
        base = a.get("base_parameter_values", [None])[0]
        simh = self.prog.module(SIM).func("Simulator._handle_simulation_results")
        rec = [c for c in ast.walk(simh) if isinstance(c, ast.Call) and norm(c.func) == "self.simulation_parameters.append"]
        if rec and norm(rec[0].args[0]) == "self.model.get_parameter_values()":
            self.holds("N6", SIM, "Simulator._handle_simulation_results", "segment-record-source", rec[0], "each segment records model.get_parameter_values()")
        else:
            self.violated("N6", SIM, "Simulator._handle_simulation_results", "segment-record-source", rec[0] if rec else simh, "the per-segment parameter record is not model.get_parameter_values()")

    def must_fire(self):
        return [
            Variant("parameter-values-include-assignments", MOD, "Model.get_parameter_values", "return dict(cache.base_parameter_values)", "return {k: cache.all_parameter_values[k] for k in self._parameters}", expect="N6|", quick=True),
            Variant("time-one", MOD, CC, "{'time': 0.0}", "{'time': 1.0}", expect="N1|", quick=True),
            Variant("any-instead-of-all", MOD, CC, "if all((i in all_parameter_names for i in derived.args)):", "if any((i in all_parameter_names for i in derived.args)):", expect="N2|", quick=True),
            Variant("classify-in-declaration-order", MOD, CC, "    static_order = []\n    dyn_order = []\n    for name in order:", "    static_order = []\n    dyn_order = []\n    for name in to_sort:", expect="N2|", quick=True),
            Variant("closure-not-growing", MOD, CC, "                static_order.append(name)\n                all_parameter_names.add(name)\n", "                static_order.append(name)\n", expect="N2|"),
            Variant("second-pass", MOD, CC, "    static_order = []\n", "    for name in order:\n        to_sort[name].calculate_inpl(name, dependent)\n    static_order = []\n", expect="N1|"),
            Variant("pass-in-declaration-order", MOD, CC, "    for name in order:\n        to_sort[name].calculate_inpl(name, dependent)", "    for name in to_sort:\n        to_sort[name].calculate_inpl(name, dependent)", expect="N1|"),
            Variant("ic-only-plain", MOD, CC, "initial_conditions = {k: cast(float, dependent[k]) for k in self._variables}",
                    "initial_conditions = dict(base_variable_values)", expect="N1|"),
            Variant("coefficient-any", MOD, CC, "if all((i in all_parameter_names for i in factor.args)):", "if any((i in all_parameter_names for i in factor.args)):", expect="N2|", count=2),
            Variant("derived-variables-not-complement", MOD, "Model.get_derived_variables", "if k not in cache.all_parameter_values", "if k not in cache.base_parameter_values", expect="N4|", quick=True),
            Variant("simulator-empty-y0", SIM, "Simulator.__init__", "model.get_initial_conditions() if y0 is None else y0", "{} if y0 is None else y0", expect="N5|", quick=True),
            Variant("assignment-parameters-skipped", MOD, CC, "} | {k: init for k, v in self._parameters.items() if isinstance((init := v.value), InitialAssignment)}", "}", expect="N1|"),
            Variant("frozen-skips-derived", MOD, CC, "if name in self._parameters or name in self._derived:", "if name in self._parameters:", expect="N3|"),
        ]

    def must_stay_silent(self):
        return [
            Variant("rename-dependent", MOD, CC, r"\bdependent\b", "values0", count=0, regex=True, quick=True),
        ]


CHECK = C13
