"""C14 - protocols: each step's parameter values hold exactly over its interval (DESIGN 4/C14)."""

from __future__ import annotations

import ast

from ..core import AnalysisError, Check, expand_locals, norm, single_defs, strip_docstring, walk_no_nested
from ..interp import Sym, SymInterp
from ..timeq import ABS
from ..variants import Variant
from .c04 import CLS, SIM, run_time_rule

INIT = "__init__.py"


class C14(Check):
    pid = "C14"
    title = "Protocols: each step's parameter values hold exactly over its interval"
    rules = {
        "Q5": "(shared with C04) every simulated step is stored as its own frame together with the parameter record it was computed under, and "
              "nothing else rewrites the stored result (T3, T8 of C04)",
        "Q4": "(shared with C10) views of a protocol result evaluate every segment under that segment's parameter record (V2, V5 of C10)",
        "Q1": "make_protocol stores each step's values under the time accumulated *including* that step (cumulative end times from 0)",
        "Q2": "in both protocol runners every iteration applies the row's parameter values before simulating, unconditionally, "
              "and the time arguments type-check (t_start ABS taken once; ABS + DUR; no ABS/REL/DUR mix)",
        "Q3": "time-course form: protocol index shifted to absolute time, t_start added to the requested points only under the "
              "relative flag, outer join with the step boundaries, half-open selection (t_start, t_end] then t_start := t_end",
        "Q6": "(shared with C03) applying a step's values through Model.update_parameter(s) leaves no memoised cache from before the write in "
              "place - reset on every exit, and no earlier snapshot of it stored back (I1 of C03, for these two methods)",
    }
    floors = {"Q4": 4, "Q5": 3, "Q1": 3, "Q2": 8, "Q3": 4, "Q6": 2}
    decided = [
        "step i's values are applied before, and only before, simulating step i's interval",
        "step intervals are (cumulative end of step i-1, cumulative end of step i] in absolute time, also when continuing an earlier run",
        "the time-course form selects each requested point and each boundary for exactly one step",
    ]
    undecided = ["states and fluxes inside a step (integration)", "that SciPy returns each selected point exactly once"]
    assumptions = ["protocol index = cumulative durations (as built by make_protocol); pandas Index.join(how='outer') is a sorted union"]

    def run(self) -> None:
        init = self.prog.module(INIT)
        sim = self.prog.module(SIM)
        self.borrow("C10", ("V2", "V5"), "Q4")
        self.borrow("C04", ("T3", "T8"), "Q5")
        self.borrow("C03", ("I1",), "Q6", functions=("Model.update_parameter", "Model.update_parameters"))
        self.q1(init)
        run_time_rule(self, "Q2", ["simulate_protocol", "simulate_protocol_time_course"], {"time_points": ABS})
        # drop the duplicated store-frame obligations contributed by the shared pass 0 (they belong to C04/T1)
        self.obs = [o for o in self.obs if not (o.rule == "Q2" and o.construct.startswith("store-frame"))]
        for name in ("simulate_protocol", "simulate_protocol_time_course"):
            self.q2(sim, name)
        self.q3(sim)

    def q1(self, init) -> None:
        fn = init.func("make_protocol")
        q = "make_protocol"
        # first choice: evaluate the function abstractly on three symbolic steps (seqeval.py) - whatever way the fold is written
        try:
            from ..seqeval import protocol_table

            pairs, expected, rows = protocol_table(init, fn)
        except AnalysisError as e:
            self.analysed["make_protocol_evaluated_abstractly"] = f"no ({e}); structural rules used"
        else:
            import sympy

            self.analysed["make_protocol_evaluated_abstractly"] = "yes: " + ", ".join(f"{k} -> {v}" for k, v in pairs)
            anchor = next((s_ for s_ in strip_docstring(fn.body) if isinstance(s_, (ast.For, ast.Assign))), fn)
            keys_ok = len(pairs) == len(expected) and all(hasattr(k, "is_number") and sympy.simplify(k - ek) == 0 for (k, _), (ek, _) in zip(pairs, expected))
            vals_ok = len(pairs) == len(expected) and all(v == ev_ for (_, v), (_, ev_) in zip(pairs, expected))
            got = ", ".join(f"{k}: {v}" for k, v in pairs)
            if len(pairs) != len(expected):
                self.violated("Q1", INIT, q, "starts-at-zero-unfiltered", anchor, f"three steps (d1,p1),(d2,p2),(d3,p3) give {len(pairs)} rows: {{{got}}}",
                              witness="make_protocol([(1,{'k':1}),(2,{'k':2}),(3,{'k':3})]) does not have three rows")
            else:
                self.holds("Q1", INIT, q, "starts-at-zero-unfiltered", anchor, "three symbolic steps give three rows")
            if keys_ok and rows:
                self.holds("Q1", INIT, q, "accumulate-then-store", anchor, f"abstract evaluation on three symbolic steps: {{{got}}}, one row per step")
            else:
                self.violated("Q1", INIT, q, "accumulate-then-store", anchor,
                              f"for steps (d1,p1),(d2,p2),(d3,p3) the table is {{{got}}}" + ("" if rows else " with one COLUMN per step") + ": a step is not keyed by the time accumulated including that step",
                              witness="make_protocol([(1,{'k':1}),(2,{'k':2})]) has index [0s,1s] instead of [1s,3s]: every step's values govern the wrong interval")
            if vals_ok:
                self.holds("Q1", INIT, q, "stores-step-values", anchor, "each row holds its own step's values")
            else:
                self.violated("Q1", INIT, q, "stores-step-values", anchor, f"for steps (d1,p1),(d2,p2),(d3,p3) the table is {{{got}}}: a row does not hold its own step's values")
            return
        loops = [s for s in strip_docstring(fn.body) if isinstance(s, ast.For)]
        if not loops and self.q1_fold(init, fn):
            return
        if len(loops) != 1 or not isinstance(loops[0].target, ast.Tuple):
            raise AnalysisError("make_protocol: loop over (duration, values) steps not recognised")
        loop = loops[0]
        step, pars = (e.id for e in loop.target.elts)
        accs = [s for s in loop.body if isinstance(s, ast.AugAssign) and isinstance(s.op, ast.Add) and isinstance(s.target, ast.Name)
                and step in {n.id for n in ast.walk(s.value) if isinstance(n, ast.Name)}]
        stores = [s for s in loop.body if isinstance(s, ast.Assign) and isinstance(s.targets[0], ast.Subscript)]
        if len(accs) != 1 or len(stores) != 1:
            self.undecided_ob("Q1", INIT, q, "accumulate-then-store", loop, "loop body shape not recognised")
            return
        acc, store = accs[0], stores[0]
        key = norm(store.targets[0].slice)
        if key == acc.target.id and loop.body.index(acc) < loop.body.index(store):
            self.holds("Q1", INIT, q, "accumulate-then-store", store, f"`{norm(acc)}` precedes `{norm(store)}`: key = cumulative end of the step")
        else:
            self.violated("Q1", INIT, q, "accumulate-then-store", store,
                          f"`{norm(store)}` does not store under the time accumulated including this step "
                          f"(accumulation `{norm(acc)}` {'follows' if key == acc.target.id else 'is not the key of'} the store)",
                          witness="make_protocol([(1,{'k':1}),(2,{'k':2})]) has index [0s,1s] instead of [1s,3s]: every step's values govern the wrong interval")
        if norm(store.value) == pars:
            self.holds("Q1", INIT, q, "stores-step-values", store, "the step's own parameter dict is stored")
        else:
            self.violated("Q1", INIT, q, "stores-step-values", store, f"stored value `{norm(store.value)}` is not the step's values `{pars}`")
        # accumulator starts at zero before the loop
        inits = [s for s in strip_docstring(fn.body) if isinstance(s, ast.Assign) and norm(s.targets[0]) == acc.target.id]
        zero = inits and norm(inits[0].value) in ("pd.Timedelta(0)", "pd.Timedelta(seconds=0)", "pd.Timedelta(0, unit='s')")
        if zero and not (loop.orelse or any(isinstance(x, (ast.If, ast.Continue, ast.Break)) for x in walk_no_nested(loop))):
            self.holds("Q1", INIT, q, "starts-at-zero-unfiltered", inits[0], "accumulator starts at 0; every step is consumed")
        else:
            self.violated("Q1", INIT, q, "starts-at-zero-unfiltered", fn, "accumulator does not start at zero or steps are filtered")

    def q1_fold(self, init, fn) -> bool:
        """make_protocol written as a fold: accumulate(steps, F, initial=(Timedelta(0), ..)) with the seed dropped."""
        q = "make_protocol"
        acc = [c for c in ast.walk(fn) if isinstance(c, ast.Call) and norm(c.func).split(".")[-1] == "accumulate" and len(c.args) == 2]
        if len(acc) != 1 or not isinstance(acc[0].args[1], ast.Name) or acc[0].args[1].id not in init.functions:
            return False
        c = acc[0]
        F = init.functions[c.args[1].id]
        kw = {k.arg: k.value for k in c.keywords}
        seed = kw.get("initial")
        steps = norm(c.args[0])
        zero = isinstance(seed, ast.Tuple) and len(seed.elts) == 2 and norm(seed.elts[0]) in ("pd.Timedelta(0)", "pd.Timedelta(seconds=0)", "pd.Timedelta(0, unit='s')")
        params = [a.arg for a in F.args.args]
        rets = [st for st, _ in SymInterp().run_function(F, Sym()).returns]
        shape = False
        if len(params) == 2 and len(rets) == 1:
            rv = [e[1] for e in rets[0].events if e[0] == "return"]
            prev, step = params
            shape = bool(rv) and rv[-1].replace(" ", "") in (f"({prev}[0]+pd.Timedelta(seconds={step}[0]),{step}[1])", f"(pd.Timedelta(seconds={step}[0])+{prev}[0],{step}[1])")
        defs = single_defs(fn)
        # the seed element must be dropped, everything else kept, in order
        uses = [n for n in ast.walk(fn) if isinstance(n, ast.Call) and norm(n.func).split(".")[-1] == "islice" and len(n.args) == 3 and norm(expand_locals(n.args[0], defs)) == norm(c)
                and norm(n.args[1]) == "1" and norm(n.args[2]) == "None"]
        if zero and shape and steps == [a.arg for a in fn.args.args][0]:
            self.holds("Q1", INIT, q, "accumulate-then-store", c, "fold over the steps: key = previous end + this step's duration, value = this step's values")
            self.holds("Q1", INIT, q, "stores-step-values", c, "the step's own parameter dict is stored")
        else:
            self.violated("Q1", INIT, q, "accumulate-then-store", c, "the fold over the steps does not key each step by the time accumulated including that step",
                          witness="make_protocol([(1,{'k':1}),(2,{'k':2})]) has index [0s,1s] instead of [1s,3s]")
        if zero and uses:
            self.holds("Q1", INIT, q, "starts-at-zero-unfiltered", uses[0], "accumulator seeded with 0; only the seed element is dropped")
        else:
            self.violated("Q1", INIT, q, "starts-at-zero-unfiltered", c, "accumulator does not start at zero or steps are filtered")
        return True

    def q2(self, sim, name: str) -> None:
        """Per-iteration behaviour of a protocol runner, from two-iteration path summaries (values staged in locals, helper
        functions and the way the step ends are iterated do not matter)."""
        fn = sim.func(f"{CLS}.{name}")
        q = f"{CLS}.{name}"
        loops = [s for s in strip_docstring(fn.body) if isinstance(s, ast.For) and "iterrows" in norm(s.iter)]
        if len(loops) != 1:
            raise AnalysisError(f"{q}: protocol loop not recognised")
        loop = loops[0]
        it = loop.iter
        whole = norm(it) == "protocol.iterrows()" or (isinstance(it, ast.Call) and norm(it.func) == "zip" and any(norm(a_) == "protocol.iterrows()" for a_ in it.args)
                                                         and {k.arg: norm(k.value) for k in it.keywords}.get("strict") == "True")
        if whole:
            self.holds("Q2", SIM, q, "every-step-in-order", loop, "iterates protocol.iterrows(): every step, in protocol order")
        else:
            self.violated("Q2", SIM, q, "every-step-in-order", loop, f"the loop iterates `{norm(loop.iter)}`: steps are skipped or reordered",
                          witness="the first (or last) step of the protocol is never simulated")

        class Two(SymInterp):
            loop_unroll = 2

        out = Two().run_function(fn, Sym())
        paths = [self._uncopy(st) for st, _ in out.returns]
        self.paths14 = getattr(self, "paths14", {})
        self.paths14[name] = paths

        def iteration_events(st, k):
            """events of iteration k: from the update/simulate calls that mention ROW(k, ..) / ITEM(k, ..)"""
            return [e for e in st.events if e[0] == "call" and (f"ROW({k}, " in e[1] or f"ITEM({k}, " in e[1] or e[1].startswith(("self.simulate(", "self.simulate_time_course(")))]

        ok = bool(paths)
        skipped = False
        seen_iter = False
        for st in paths:
            calls = [e[1] for e in st.events if e[0] == "call"]
            ups = [i for i, c in enumerate(calls) if c.startswith("self.model.update_parameters(")]
            sims = [i for i, c in enumerate(calls) if c.startswith(("self.simulate(", "self.simulate_time_course("))]
            if not ups and not sims:
                continue
            seen_iter = True
            # strict alternation update(ROW(k)), simulate, update(ROW(k+1)), simulate ...
            seq = sorted([(i, "u") for i in ups] + [(i, "s") for i in sims])
            kinds = "".join(k for _, k in seq)
            if kinds not in ("us", "usus", "u", "usu"):
                ok = False
            for n_, i in enumerate(ups):
                if calls[i] != f"self.model.update_parameters(ROW({n_}, protocol).to_dict())":
                    ok = False
            if kinds in ("u", "usu"):
                skipped = True
        node_u = [s_ for s_ in ast.walk(loop) if isinstance(s_, ast.Expr) and norm(s_.value).startswith("self.model.update_parameters(")]
        if ok and seen_iter:
            self.holds("Q2", SIM, q, "apply-then-simulate", node_u[0] if node_u else loop, "row values applied unconditionally before the step is simulated")
        else:
            self.violated("Q2", SIM, q, "apply-then-simulate", loop,
                          "the step's parameter values are not applied (unconditionally, exactly once) before its interval is simulated",
                          witness="protocol [(1,{'k':1}),(1,{'k':2})]: the first interval runs under the model's previous k, the second under k=1")
        if skipped:
            self.violated("Q2", SIM, q, "no-skip-before-simulate", loop, "a step can be skipped before it is simulated")
        else:
            self.holds("Q2", SIM, q, "no-skip-before-simulate", loop, "no conditional exit precedes the simulation of a step")
        # the loop is left early only when the simulation has failed (nothing stored / an error recorded)
        FAIL = {"self.variables is None": True, "self.variables is not None": False, "len(self._errors) > 0": True, "len(self._errors) != 0": True, "self._errors": True,
                "len(self._errors) == 0": False, "not self._errors": False, "len(self._errors)": True, "bool(self._errors)": True, "len(self._errors) >= 1": True, "self._errors != []": True,
                "0 < len(self._errors)": True, "len(self._errors) < 1": False, "(variables := self.variables) is None": True}
        from ..core import Scope

        sc = Scope(fn)
        bad_exit = None
        n_exits = 0
        for x in walk_no_nested(loop):
            if not isinstance(x, (ast.Break, ast.Continue, ast.Return)):
                continue
            n_exits += 1
            why_ok = False
            for iff, fld in sc.enclosing_with_field(x, ast.If):
                if not any(iff is y for y in ast.walk(loop)):
                    continue
                t_ = norm(iff.test)
                if t_ in FAIL and ((fld == "body") == FAIL[t_]):
                    why_ok = True
            if not why_ok:
                bad_exit = x
        # a simulator that has recorded a failure does not continue: the entry guard returns before anything is simulated
        g0 = next((s_ for s_ in strip_docstring(fn.body) if isinstance(s_, ast.If)), None)
        guard_ok = g0 is not None and FAIL.get(norm(g0.test)) is True and norm(g0.test) != "self.variables is None" and len(g0.body) == 1 and isinstance(g0.body[0], ast.Return) \
            and not any(isinstance(x, ast.Call) and norm(x.func).startswith(("self.simulate", "self.model.update")) for s_ in strip_docstring(fn.body)[:strip_docstring(fn.body).index(g0)] for x in ast.walk(s_))
        if guard_ok:
            self.holds("Q2", SIM, q, "stops-after-failure", g0, f"`{norm(g0.test)}` returns before any step is applied")
        else:
            self.violated("Q2", SIM, q, "stops-after-failure", g0 or fn, "a simulator with a recorded failure still applies protocol steps (the entry guard is missing or tests something else)",
                          witness="a failed simulate() followed by simulate_protocol(): parameters of the protocol are written into the model although no result can follow")
        if bad_exit is not None:
            self.violated("Q2", SIM, q, "early-exit-only-on-failure", bad_exit, f"`{norm(bad_exit)}` leaves or skips within the protocol loop although the simulation has not failed: later steps are not simulated",
                          witness="a two-step protocol: only the first step is simulated, the result ends at the first boundary")
        else:
            self.holds("Q2", SIM, q, "early-exit-only-on-failure", loop, f"{n_exits} early exit(s), each only when nothing is stored / an error was recorded")
        if name == "simulate_protocol":
            # the end handed to simulate() in iteration k is <start taken once> + <cumulative end k>
            good = True
            n_checked = 0
            for st in paths:
                sims = [e[1] for e in st.events if e[0] == "call" and e[1].startswith("self.simulate(")]
                t0 = "0.0" if any(c == "self.variables is None" and p_ for c, p_ in st.conds) else "self.variables[-1].index[-1]"
                for k, c in enumerate(sims):
                    n_checked += 1
                    cn = ast.parse(c, mode="eval").body
                    argn = cn.args[0] if cn.args else {k_.arg: k_.value for k_ in cn.keywords}.get("t_end")
                    arg = norm(argn) if argn is not None else "?"
                    if arg not in (f"{t0} + ITEM({k}, protocol.index).total_seconds()", f"ITEM({k}, protocol.index).total_seconds() + {t0}"):
                        good = False
            if good and n_checked:
                self.holds("Q2", SIM, q, "t_start-fixed", loop, "t_start is taken once; step ends are t_start + cumulative duration")
            else:
                self.violated("Q2", SIM, q, "t_start-fixed", loop,
                              "t_start is advanced inside the loop although the protocol index is cumulative: step ends are counted twice")

    @staticmethod
    def _uncopy(st):
        """A local created as a copy of the protocol (`shifted = protocol.copy()`) is read as the protocol itself: the rules are about
        which rows / index values are used, and a copy has the same rows (its re-assigned index is tracked separately)."""
        import re

        names = [e[1] for e in st.events if e[0] == "new" and e[2] in ("protocol.copy()", "copy.deepcopy(protocol)", "protocol.copy(deep=True)")]
        if not names:
            return st
        pat = re.compile(r"\b(" + "|".join(re.escape(n) for n in names) + r")\b")

        def f(x):
            return pat.sub("protocol", x) if isinstance(x, str) else x
        return Sym(tuple((f(k), f(v)) for k, v in st.env), tuple((f(c), p) for c, p in st.conds), tuple(tuple(f(x) for x in e) for e in st.events))

    def q3(self, sim) -> None:
        fn = sim.func(f"{CLS}.simulate_protocol_time_course")
        q = f"{CLS}.simulate_protocol_time_course"
        loop = [s for s in strip_docstring(fn.body) if isinstance(s, ast.For)][0]
        paths = self.paths14["simulate_protocol_time_course"]
        half = rel = join = True
        n_sim = 0
        why = ""
        for st in paths:
            t0 = "0.0" if any(c == "self.variables is None" and p_ for c, p_ in st.conds) else "self.variables[-1].index[-1]"
            relative = [p_ for c, p_ in st.conds if c == "time_points_as_relative"]
            tp = "np.array(time_points, dtype=float)" + (f" + {t0}" if relative and relative[-1] else "")
            idx = f"(protocol.index + pd.Timedelta({t0}, unit='s')).total_seconds()"
            full = f"{idx}.join(pd.Index({tp}), how='outer')"
            sims = [e[1] for e in st.events if e[0] == "call" and e[1].startswith("self.simulate_time_course(")]
            for k, c in enumerate(sims):
                n_sim += 1
                short = c.replace(full, "F").replace(idx, "IDX").replace(tp, "TP")
                lo = t0 if k == 0 else f"ITEM({k - 1}, IDX)"
                hi = f"ITEM({k}, IDX)"
                lo = lo.replace(idx, "IDX")
                forms = (f"self.simulate_time_course(time_points=F[(F > {lo}) & (F <= {hi})])", f"self.simulate_time_course(time_points=F[(F <= {hi}) & (F > {lo})])",
                         f"self.simulate_time_course(time_points=F[({lo} < F) & (F <= {hi})])", f"self.simulate_time_course(F[(F > {lo}) & (F <= {hi})])")
                if short not in forms:
                    if "F[" not in short:
                        join = False
                        if "TP" not in short:
                            rel = False
                    half = False
                    why = short[:140]
        masks = [n for n in ast.walk(loop) if isinstance(n, ast.BinOp) and isinstance(n.op, ast.BitAnd)]
        anchor = masks[0] if masks else loop
        if half and n_sim:
            self.holds("Q3", SIM, q, "half-open-selection", anchor, "points selected for step k: (end of step k-1 | start, end of step k], ends in absolute time")
            self.holds("Q3", SIM, q, "advance-after", anchor, "the lower bound of step k+1 is the end of step k")
        else:
            self.violated("Q3", SIM, q, "half-open-selection", anchor,
                          "the per-step selection is not the half-open interval (t_start, t_end]: a boundary point is simulated "
                          f"under both neighbouring steps or under neither (`{why}`)",
                          witness="requested point equal to a step boundary appears twice / is missing, or is computed under the next step's values")
        flags = [s for s in ast.walk(fn) if isinstance(s, ast.If) and isinstance(s.test, ast.Name) and s.test.id.endswith("as_relative")]
        if rel and n_sim and (half or join):
            self.holds("Q3", SIM, q, "relative-flag", flags[0] if flags else fn, "t_start added to the requested points only under the flag")
        else:
            self.violated("Q3", SIM, q, "relative-flag", flags[0] if flags else fn, "relative time points are not shifted by t_start exactly under the flag")
        joins = [n for n in ast.walk(fn) if isinstance(n, ast.Call) and isinstance(n.func, ast.Attribute) and n.func.attr == "join"]
        if join and n_sim and joins:
            self.holds("Q3", SIM, q, "outer-join", joins[0], "requested points united with the step boundaries")
        else:
            self.violated("Q3", SIM, q, "outer-join", joins[0] if joins else fn, "requested points are not outer-joined with the step boundaries: boundaries or points are lost")

    def must_fire(self):
        P = f"{CLS}.simulate_protocol"
        PT = f"{CLS}.simulate_protocol_time_course"
        return [
            Variant("store-before-accumulate", INIT, "make_protocol", "        t0 += pd.Timedelta(seconds=step)\n        data[t0] = pars",
                    "        data[t0] = pars\n        t0 += pd.Timedelta(seconds=step)", expect="Q1|", quick=True),
            Variant("simulate-before-update", SIM, P,
                    "        self.model.update_parameters(pars.to_dict())\n        self.simulate(t_start + t_end.total_seconds(), steps=time_points_per_step)",
                    "        self.simulate(t_start + t_end.total_seconds(), steps=time_points_per_step)\n        self.model.update_parameters(pars.to_dict())",
                    expect="Q2|", quick=True),
            Variant("closed-open-selection", SIM, PT, "(full_time_points > t_start) & (full_time_points <= t_end)",
                    "(full_time_points >= t_start) & (full_time_points < t_end)", expect="Q3|", quick=True),
            Variant("no-index-shift", SIM, PT, "(cast(pd.TimedeltaIndex, protocol.index) + pd.Timedelta(t_start, unit='s')).total_seconds()",
                    "cast(pd.TimedeltaIndex, protocol.index).total_seconds()", expect="Q2|", quick=True),
            Variant("seconds-component", SIM, P, "t_start + t_end.total_seconds()", "t_start + t_end.seconds", expect="Q2|", quick=True),
            Variant("protocol-skips-first-step", SIM, P, "for t_end, pars in protocol.iterrows():", "for t_end, pars in protocol.iloc[1:].iterrows():", expect="Q2|"),
            Variant("protocol-advances-t_start", SIM, P, "        if self.variables is None:\n            break",
                    "        t_start = t_start + t_end.total_seconds()\n        if self.variables is None:\n            break", expect="Q2|"),
            Variant("relative-always", SIM, PT, "    if time_points_as_relative:\n        time_points += t_start", "    time_points += t_start", expect="Q"),
            Variant("inner-join", SIM, PT, "how='outer'", "how='inner'", expect="Q3|"),
            Variant("no-advance", SIM, PT, "        t_start = t_end\n", "", expect="Q3|"),
            Variant("protocol-drops-t_start", SIM, P, "self.simulate(t_start + t_end.total_seconds(), steps=time_points_per_step)",
                    "self.simulate(t_end.total_seconds(), steps=time_points_per_step)", expect="Q2|"),
            Variant("update-conditional", SIM, PT, "        self.model.update_parameters(pars.to_dict())\n",
                    "        if t_end > t_start:\n            self.model.update_parameters(pars.to_dict())\n", expect="Q2|"),
        ]

    def must_stay_silent(self):
        return [
            Variant("rename-acc", INIT, "make_protocol", r"\bt0\b", "elapsed", count=0, regex=True, quick=True),
            Variant("sum-form", SIM, f"{CLS}.simulate_protocol", "t_start + t_end.total_seconds()", "t_end.total_seconds() + t_start"),
        ]


CHECK = C14
