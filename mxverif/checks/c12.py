"""C12 - symbolic equations and Jacobian (DESIGN 4/C12, rules Y1-Y7)."""

from __future__ import annotations

import ast

from ..core import expand_locals, single_defs, AnalysisError, Check, Scope, dotted, norm, strip_docstring, walk_no_nested
from ..dispatch import if_chain, isinstance_kinds, match_dispatch, sequential_chain
from ..interp import Sym, SymInterp
from ..variants import Variant
from .c06 import call_site_visibility

SYM = "symbolic/symbolic_model.py"
SIM = "simulator.py"
SRC = "meta/source_tools.py"
MODEL = "model.py"
TOPO_SOURCES = ("cache.order", "cache.dyn_order", "model._create_cache().order")


def handled_sets(prog):
    """Node kinds the translator handles, extracted from its dispatchers."""
    m = prog.module(SRC)
    he = m.func("_handle_expr")
    exprs = sequential_chain(strip_docstring(he.body), he.args.args[0].arg).kinds
    from ..dispatch import operator_table
    from .c06 import compare_links

    ops: dict[str, set[str]] = {}
    for name in ("_handle_binop", "_handle_unaryop"):
        ot = operator_table(m, m.func(name))
        if ot is not None:
            ops[name] = set(ot[0])
    cl = compare_links(m, he)
    cmp_ = set(cl[0]) if cl and cl[0] else set()
    stmts = set()
    for name, f in m.functions.items():
        for n in walk_no_nested(f):
            if isinstance(n, ast.If):
                r = isinstance_kinds(n.test)
                if r and "If" in r[1]:
                    from .c06 import _block_of

                    for s in _block_of(f, n):
                        if isinstance(s, ast.If):
                            d = if_chain(s, r[0])
                            if d:
                                stmts |= d.kinds
    return {k.rstrip("?") for k in stmts}, exprs, ops.get("_handle_binop", set()), ops.get("_handle_unaryop", set()), cmp_


class C12(Check):
    pid = "C12"
    title = "Symbolic equations and Jacobian agree with the numeric model"
    rules = {
        "Y11": "an untranslatable component makes to_symbolic_model raise: no loop iteration completes on a path on which fn_to_sympy(..) was found to be None",
        "Y10": "(shared with C06) semantics of the function translator the symbolic model is built with: S2-S7, S9-S13 of C06",
        "Y1": "components are substituted in dependency order: a loop that defines symbols consumed by later iterations iterates the "
              "cached topological order, and reactions are made available to derived quantities as well",
        "Y2": "every call of fn_to_sympy agrees with its signature (arity, keyword names, the argument list is a list and not a product)",
        "Y3": "one equation per variable, in declaration order, full length (total lookup or zero-seeded table, no filter)",
        "Y4": "the Jacobian differentiates the equations with respect to the variable symbols in the same (declaration) order",
        "Y5": "lambdify contract: the call passes (time, state, parameter values) with the structure given to lambdify; names and values "
              "come from the same mapping and the values are numeric (dict[str, float])",
        "Y6": "a failed conversion in the simulator reaches a warning and leaves the Jacobian unset",
        "Y7": "every function of the shipped rate-law library uses only constructs the translator handles",
        "Y9": "equation assembly: eqs[variable] accumulates + Float(coefficient) * rate over the static table and + translated-coefficient * rate "
              "over the dynamic table (sibling of the numeric assemblers of C01)",
        "Y8": "an untranslatable derived quantity, reaction or coefficient raises",
    }
    floors = {"Y11": 2, "Y10": 10, "Y1": 2, "Y2": 15, "Y3": 1, "Y4": 2, "Y5": 3, "Y6": 1, "Y7": 15, "Y8": 3, "Y9": 2}
    decided = [
        "conversion does not depend on the declaration order of derived quantities and reactions",
        "equations are aligned with the variables; untouched variables get a zero equation",
        "the Jacobian callable receives numbers in the order of its symbols",
        "shipped rate laws are translatable; failures raise (or warn and fall back in the simulator)",
    ]
    undecided = ["equality of symbolic and numeric values at states", "trajectories with vs without the Jacobian", "initial-assignment parameters (not exported as symbols; conversion raises KeyError)"]
    assumptions = ["sympy.Matrix.jacobian differentiates row i by column j", "C06 for the translator itself"]

    def run(self) -> None:
        sym = self.prog.module(SYM)
        fn = sym.func("to_symbolic_model")
        q = fn.name
        self.borrow("C06", ("S2", "S3", "S4", "S5", "S6", "S7", "S9", "S10", "S11", "S12", "S13", "S14"), "Y10")
        # ---- Y1
        defining = []
        for lp in [s for s in walk_no_nested(fn) if isinstance(s, ast.For)]:
            writes = [s for s in ast.walk(lp) if isinstance(s, ast.Assign) and norm(s.targets[0]).startswith("symbols[")]
            reads = [n for n in ast.walk(lp) if isinstance(n, ast.Subscript) and norm(n.value) == "symbols" and isinstance(n.ctx, ast.Load)]
            if writes and reads:
                defining.append((lp, writes))
        if not defining:
            raise AnalysisError("to_symbolic_model: substitution loop not found")
        for lp, writes in defining:
            it = norm(lp.iter)
            cons = f"substitution-loop over {it[:40]}"
            if it in TOPO_SOURCES:
                self.holds("Y1", SYM, q, "substitution-order", lp, f"symbols are defined while iterating {it} (dependency order)")
            else:
                self.violated("Y1", SYM, q, "substitution-order", lp,
                              f"symbols consumed by later iterations are defined while iterating `{it}` (declaration order): a component "
                              "declared before something it names is looked up before it exists",
                              witness="add_derived('d2', f, args=['d1']) declared before add_derived('d1', g, args=['x']): to_symbolic_model raises KeyError('d1')")
        lp = defining[0][0]
        t = norm(lp)
        rx_sym = any(isinstance(s, ast.Assign) and norm(s.targets[0]).startswith("symbols[") for br in ast.walk(lp) if isinstance(br, ast.If)
                     and "reactions" in norm(br.test) for s in ast.walk(br))
        if rx_sym or ("rxns[" in t and t.count("symbols[k] = expr") >= 2):
            self.holds("Y1", SYM, q, "reactions-available-to-derived", lp, "reaction rates are entered into the symbol table in the same ordered pass")
        else:
            self.violated("Y1", SYM, q, "reactions-available-to-derived", lp, "reaction rates are not available to derived quantities that name them",
                          witness="a derived quantity whose argument is a reaction rate raises KeyError")
        # ---- Y8 (None -> raise) at the call sites here
        sc = Scope(fn)
        for c in [c for c in walk_no_nested(fn) if isinstance(c, ast.Call) and dotted(c.func).split(".")[-1] == "fn_to_sympy"]:
            ok, why = call_site_visibility(c, sc, fn)
            raises = False
            for p, fld, child in sc.ancestors(c):
                if isinstance(p, ast.If) and fld == "test":
                    raises = any(isinstance(x, ast.Raise) for x in p.body)
                    break
            cons = f"untranslatable@{norm(c.args[0])}"
            if ok and raises:
                self.holds("Y8", SYM, q, cons, c, "None -> raise ValueError")
            elif ok:
                self.holds("Y8", SYM, q, cons, c, why)
            else:
                self.violated("Y8", SYM, q, cons, c, f"a failed translation is not turned into an error: {why}")
        # ---- Y3
        ctor = [c for c in walk_no_nested(fn) if isinstance(c, ast.Call) and norm(c.func) == "SymbolicModel"]
        if not ctor:
            raise AnalysisError("SymbolicModel(...) construction not found")
        kw = {k.arg: k.value for k in ctor[0].keywords}
        e = kw.get("eqs")
        ok = False
        why = f"eqs={norm(e)}"
        if isinstance(e, ast.ListComp) and len(e.generators) == 1 and not e.generators[0].ifs and norm(e.generators[0].iter) in ("cache.var_names", "variables", "model.get_variable_names()"):
            i = norm(e.generators[0].target)
            if norm(e.elt).startswith(f"eqs.get({i}, "):
                ok = True
            elif norm(e.elt) == f"eqs[{i}]":
                seeded = any(isinstance(s, (ast.Assign, ast.AnnAssign)) and norm(getattr(s, "target", None) or s.targets[0]) == "eqs" and
                             ("fromkeys(cache.var_names" in norm(s.value) or "for " in norm(s.value) and "cache.var_names" in norm(s.value)) for s in walk_no_nested(fn))
                ok = seeded
                why = "eqs[i] is a partial lookup and the table is only filled for variables that occur in a stoichiometry"
        if ok:
            self.holds("Y3", SYM, q, "one-equation-per-variable", e, f"{norm(e)}: declaration order, full length, zero for untouched variables")
        else:
            self.violated("Y3", SYM, q, "one-equation-per-variable", e or ctor[0], f"the equations are not one per variable in declaration order ({why})",
                          witness="a model with a variable that no reaction touches: to_symbolic_model raises KeyError")
        # ---- Y4
        jac = sym.func("SymbolicModel.jacobian")
        if norm(jac.body[-1]) == "return sympy.Matrix(self.eqs).jacobian(sympy.Matrix(list(self.variables.values())))":
            self.holds("Y4", SYM, "SymbolicModel.jacobian", "differentiate-by-variables", jac, "d eqs[i] / d variables[j], both in declaration order")
        else:
            self.violated("Y4", SYM, "SymbolicModel.jacobian", "differentiate-by-variables", jac, f"`{norm(jac.body[-1])}` is not the Jacobian of the equations by the variable symbols in order")
        vs = [s for s in walk_no_nested(fn) if isinstance(s, (ast.Assign, ast.AnnAssign)) and norm(getattr(s, "target", None) or s.targets[0]) == "variables"]
        ic = self.prog.module(MODEL).func("Model._create_cache")
        ic_decl = any("for k in self._variables}" in norm(s) and "initial_conditions" in norm(s) for s in walk_no_nested(ic))

        def symbols_of(e: ast.AST) -> str | None:
            """`{n: Symbol(n) for n in A}` / `dict(zip(A, list_of_symbols(A)))` -> A (text), else None."""
            while isinstance(e, ast.Call) and norm(e.func) == "cast" and len(e.args) == 2:
                e = e.args[1]
            if isinstance(e, ast.DictComp) and len(e.generators) == 1 and not e.generators[0].ifs and isinstance(e.generators[0].target, ast.Name):
                v = e.generators[0].target.id
                if norm(e.key) == v and norm(e.value) in (f"sympy.Symbol({v})", f"Symbol({v})"):
                    return norm(e.generators[0].iter)
            if isinstance(e, ast.Call) and norm(e.func) == "dict" and len(e.args) == 1 and isinstance(e.args[0], ast.Call) and norm(e.args[0].func) == "zip" and len(e.args[0].args) == 2:
                a0, a1 = e.args[0].args
                while isinstance(a1, ast.Call) and norm(a1.func) == "cast" and len(a1.args) == 2:
                    a1 = a1.args[1]
                if isinstance(a1, ast.Call) and norm(a1.func) == "list_of_symbols" and len(a1.args) == 1 and norm(a1.args[0]) == norm(a0):
                    return norm(a0)
            return None

        # the value of `variables` with every local substituted (path summary; the function is straight-line up to its loops)
        ends12 = [st for st, _ in SymInterp().run_function(fn, Sym()).returns]
        vtxt = next((st.get("variables") for st in ends12 if st.get("variables")), None)
        src_v = symbols_of(ast.parse(vtxt, mode="eval").body) if vtxt else None
        if src_v == "model.get_initial_conditions()" and ic_decl:
            self.holds("Y4", SYM, q, "variable-symbols-in-declaration-order", vs[0], "variable symbols keyed like get_initial_conditions() (declaration order)")
        else:
            self.violated("Y4", SYM, q, "variable-symbols-in-declaration-order", vs[0] if vs else fn, "variable symbols are not created in declaration order")
        # ---- Y9: accumulation of the equations, from the summaries of one inner iteration
        for outer in [l for l in strip_docstring(fn.body) if isinstance(l, ast.For) and norm(l.iter) in ("cache.stoich_by_cpds.items()", "cache.dyn_stoich_by_cpds.items()")]:
            table = norm(outer.iter)
            inner = [l for l in outer.body if isinstance(l, ast.For)]
            if not inner or not (isinstance(outer.target, ast.Tuple) and isinstance(inner[0].target, ast.Tuple)) or norm(inner[0].iter) != f"{norm(outer.target.elts[1])}.items()":
                self.undecided_ob("Y9", SYM, q, "static-terms" if "dyn" not in table else "dynamic-terms", outer, "accumulation loops not recognised")
                continue
            cpd, rx, val = norm(outer.target.elts[0]), norm(inner[0].target.elts[0]), norm(inner[0].target.elts[1])
            o9 = SymInterp().block(inner[0].body, [Sym()])
            paths9 = list(o9.normal) + list(o9.continues)
            cons = "static-terms" if "dyn" not in table else "dynamic-terms"
            prev = f"eqs.get({cpd}, sympy.Float(0.0))"
            if cons == "static-terms":
                wants = {f"{prev} + sympy.Float({val}) * rxns[{rx}]"}
            else:
                tr = f"fn_to_sympy({val}.fn, origin=f'{{{rx}}}:{{{cpd}}}', model_args=[symbols[_c0] for _c0 in {val}.args])"
                wants = {f"{prev} + {tr} * rxns[{rx}]"}
            got9 = set()
            ZERO9 = ("sympy.Float(0.0)", "sympy.Float(0)", "sympy.Integer(0)", "sympy.S.Zero", "0", "0.0")
            for stp in paths9:
                stores = [e for e in stp.events if e[0] == "store" and e[1] == f"eqs[{cpd}]"]
                if len(stores) == 1:
                    v9 = stores[-1][2]
                    # `eqs[cpd] + term` on a path that knows cpd to be present is the same accumulation
                    present = [p_ for c_, p_ in stp.conds if c_ == f"{cpd} in eqs"] + [not p_ for c_, p_ in stp.conds if c_ == f"{cpd} not in eqs"]
                    if v9.startswith(f"eqs[{cpd}] + ") and present and present[0]:
                        v9 = prev + v9[len(f"eqs[{cpd}]"):]
                    got9.add(v9)
                elif len(stores) == 2 and stores[0][2] in ZERO9 and stores[1][2].startswith(f"eqs[{cpd}] + ") \
                        and ([p_ for c_, p_ in stp.conds if c_ == f"{cpd} in eqs"] + [not p_ for c_, p_ in stp.conds if c_ == f"{cpd} not in eqs"] or [True])[0] is False:
                    # absent -> initialised with zero, then accumulated
                    got9.add(prev + stores[1][2][len(f"eqs[{cpd}]"):])
                else:
                    got9.add(f"{len(stores)} stores")
            anchor9 = [a for a in ast.walk(inner[0]) if isinstance(a, ast.Assign) and norm(a.targets[0]) == f"eqs[{cpd}]"]
            if paths9 and got9 <= wants:
                self.holds("Y9", SYM, q, cons, anchor9[0] if anchor9 else inner[0], f"eqs[cpd] += coefficient * rate over {table}")
            else:
                bad9 = sorted(got9 - wants)
                self.violated("Y9", SYM, q, cons, anchor9[0] if anchor9 else inner[0], f"`{(bad9[0] if bad9 else '?')[:110]}` is not `previous + coefficient * rate` over {table}",
                              witness="the symbolic equation of a variable lacks a coefficient or has the wrong sign")
        if not {o.construct for o in self.obs if o.rule == "Y9"} >= {"static-terms", "dynamic-terms"}:
            self.violated("Y9", SYM, q, "both-tables", fn, "the symbolic equations are not assembled from both the static and the dynamic coefficient table")
        self.y11(sym, fn)
        self.y2()
        self.y5()
        self.y7()

    def y11(self, sym, fn) -> None:
        """A component whose function does not translate makes the construction raise: no iteration completes on a path on which a
        translation result has been found to be None."""
        q = fn.name

        class I1(SymInterp):
            loop_unroll = 1

        n = 0
        for lp in [l for l in walk_no_nested(fn) if isinstance(l, ast.For)]:
            if not any(isinstance(c, ast.Call) and norm(c.func).split(".")[-1] == "fn_to_sympy" for c in ast.walk(lp)):
                continue
            inner = [l2 for l2 in ast.walk(lp) if isinstance(l2, ast.For) and l2 is not lp and any(isinstance(c, ast.Call) and norm(c.func).split(".")[-1] == "fn_to_sympy" for c in ast.walk(l2))]
            target = inner[0] if inner else lp
            o = I1().block(target.body, [Sym()])
            n += 1
            slipped = None
            refused = 0
            for st in list(o.normal) + list(o.continues):
                for c, v in st.conds:
                    if "fn_to_sympy(" in c and c.rstrip().endswith("is None") and v:
                        slipped = c
            refused = len(getattr(o, "raises", []))
            cons = f"untranslatable-refused@{getattr(target, '_orig_lineno', target.lineno)}"
            if slipped is not None:
                self.violated("Y11", SYM, q, cons, target, "an iteration completes although the translation of its function came back None: the component enters the symbolic model as None / is left out, "
                              "and equations and Jacobian are built without it", witness="a rate law with a `for` loop: to_symbolic_model returns equations in which that rate is missing instead of raising")
            else:
                self.holds("Y11", SYM, q, cons, target, "every path on which a translation is None leaves by raising")
        if n == 0:
            self.undecided_ob("Y11", SYM, q, "untranslatable-refused", fn, "no loop translating component functions found")

    def y2(self) -> None:
        src = self.prog.module(SRC).func("fn_to_sympy")
        params = [a.arg for a in src.args.args]
        n_req = len(params) - len(src.args.defaults)
        n = 0
        for rel in sorted(self.prog.sources):
            m = self.prog.module(rel)
            for fname, f in m.functions.items():
                calls = [c for c in walk_no_nested(f) if isinstance(c, ast.Call) and dotted(c.func).split(".")[-1] == "fn_to_sympy"]
                calls.sort(key=lambda c: (c.lineno, c.col_offset))
                for i, c in enumerate(calls):
                    n += 1
                    kws = {k.arg for k in c.keywords}
                    bound = set(params[: len(c.args)]) | kws
                    problems = []
                    if len(c.args) > len(params):
                        problems.append(f"{len(c.args)} positional arguments for {len(params)} parameters")
                    if kws - set(params):
                        problems.append(f"unknown keyword(s) {sorted(kws - set(params))}")
                    if not set(params[:n_req]) <= bound:
                        problems.append(f"required parameter(s) {sorted(set(params[:n_req]) - bound)} missing")
                    if set(params[: len(c.args)]) & kws:
                        problems.append("parameter given twice")
                    for pos, a in enumerate(c.args):
                        pname = params[pos] if pos < len(params) else "?"
                        if pname == "origin" and isinstance(a, (ast.List, ast.ListComp, ast.BinOp)):
                            problems.append(f"`{norm(a)[:40]}` is passed as `origin` (a string)")
                        if pname == "model_args" and isinstance(a, ast.BinOp):
                            problems.append(f"`{norm(a)[:50]}` (an arithmetic product) is passed as the argument list")
                    for k in c.keywords:
                        if k.arg == "model_args" and isinstance(k.value, ast.BinOp):
                            problems.append(f"`{norm(k.value)[:50]}` (an arithmetic product) is passed as the argument list")
                    cons = f"call#{i}"
                    if problems:
                        self.violated("Y2", rel, fname, cons, c, "call does not match fn_to_sympy(" + ", ".join(params) + "): " + "; ".join(problems),
                                      witness="every model with a state-dependent stoichiometric coefficient: to_symbolic_model raises TypeError")
                    else:
                        self.holds("Y2", rel, fname, cons, c, "matches the signature")
        self.analysed["fn_to_sympy_call_sites"] = n

    def y5(self) -> None:
        sim = self.prog.module(SIM)
        fn = sim.func("Simulator._initialise_integrator")
        q = "Simulator._initialise_integrator"
        lam = [c for c in ast.walk(fn) if isinstance(c, ast.Call) and norm(c.func) == "lambdify"]
        # the closure handed to the integrator: a lambda, or a nested def that only returns a call
        closures: list[tuple[list[str], ast.AST]] = [([a.arg for a in n.args.args], n.body) for n in ast.walk(fn) if isinstance(n, ast.Lambda)]
        for n in ast.walk(fn):
            if isinstance(n, ast.FunctionDef) and n is not fn:
                b_ = strip_docstring(n.body)
                if len(b_) == 1 and isinstance(b_[0], ast.Return) and b_[0].value is not None:
                    closures.append(([a.arg for a in n.args.args], b_[0].value))
        closures = [c_ for c_ in closures if any(isinstance(c, ast.Call) for c in ast.walk(c_[1]))]
        lams = [c_[1] for c_ in closures]
        cl_params = closures[0][0] if closures else []
        if not lam or not lams:
            raise AnalysisError(f"{q}: lambdify / closure not found")
        ldefs = {k: v for k, v in single_defs(fn, anywhere=True).items() if not isinstance(v, (ast.Lambda,)) and not (isinstance(v, ast.Call) and norm(v.func) == "lambdify")}
        sig = expand_locals(lam[0].args[0], ldefs)
        call = [c for c in ast.walk(lams[0]) if isinstance(c, ast.Call)][0]
        if not (isinstance(sig, ast.Tuple) and len(sig.elts) == 3 and len(call.args) == 3):
            self.violated("Y5", SIM, q, "argument-structure", lam[0], "lambdify signature and call do not both have the (time, variables, parameters) structure")
            return
        self.holds("Y5", SIM, q, "argument-structure", lam[0], "lambdify((time, variables, parameters)) called with three arguments")
        names, values = norm(sig.elts[2]), norm(call.args[2])
        model_mod = self.prog.module(MODEL)

        def mapping_of(t: str):
            """(mapping expression, role) for list(M) / M / list(M.values()) / M.values() / M.keys()."""
            inner = t[5:-1] if t.startswith("list(") and t.endswith(")") else t
            if inner.endswith(".values()"):
                return inner[: -len(".values()")], "values"
            if inner.endswith(".keys()"):
                return inner[: -len(".keys()")], "names"
            return inner, "names"

        nm, nrole = mapping_of(names)
        vm, vrole = mapping_of(values)

        def value_type(expr: str) -> str:
            # self.model.<getter>() -> return annotation; self.model.<field> -> field annotation
            tail = expr.replace("self.model.", "")
            if tail.endswith("()"):
                f = model_mod.functions.get(f"Model.{tail[:-2]}")
                return norm(f.returns) if f is not None and f.returns is not None else "?"
            for s in model_mod.cls("Model").body:
                if isinstance(s, ast.AnnAssign) and norm(s.target) == tail:
                    return norm(s.annotation)
            return "?"

        vt = value_type(vm)
        numeric = vt.replace(" ", "") in ("dict[str,float]", "Mapping[str,float]")
        same = nm == vm or (nm.endswith("get_parameter_names()") and False)
        if vrole == "values" and numeric and same:
            self.holds("Y5", SIM, q, "names-and-values-agree", call, f"names from {nm}, values from {vm}.values() : {vt}")
        else:
            why = []
            if vrole != "values":
                why.append(f"`{values}` is not the values of a mapping")
            if not numeric:
                why.append(f"`{vm}` has type {vt}: its values are not numbers")
            if not same:
                why.append(f"names come from `{nm}` but values from `{vm}` (different key sets / orders possible)")
            self.violated("Y5", SIM, q, "names-and-values-agree", call, "; ".join(why),
                          witness="Simulator(m, use_jacobian=True, integrator=partial(Scipy, method='BDF')).simulate(1) raises TypeError inside the Jacobian")
        if norm(sig.elts[1]) == "self.model.get_variable_names()" and len(cl_params) >= 2 and norm(call.args[1]) == cl_params[1] and norm(call.args[0]) == cl_params[0]:
            self.holds("Y5", SIM, q, "state-order", lam[0], "state vector symbols = get_variable_names(); (t, x) passed through")
        else:
            self.violated("Y5", SIM, q, "state-order", lam[0], "state symbols / positional pass-through of (t, x) do not match")
        # Y6: on every path on which the conversion raised, a warning is logged and the integrator is built with no Jacobian
        tr = [s for s in ast.walk(fn) if isinstance(s, ast.Try)]
        p6 = [st for st, _ in SymInterp().run_function(fn, Sym()).returns]
        failed = [st for st in p6 if any(c.endswith(" raised") and p_ for c, p_ in st.conds)]

        def built_without(st) -> bool:
            sets = [e for e in st.events if e[0] == "set" and e[1] == "self.integrator"]
            if not sets:
                return False
            try:
                c_ = ast.parse(sets[-1][2], mode="eval").body
            except SyntaxError:
                return False
            last = c_.args[-1] if isinstance(c_, ast.Call) and c_.args else None
            kw_ = {k.arg: k.value for k in c_.keywords} if isinstance(c_, ast.Call) else {}
            last = kw_.get("jacobian", last)
            return isinstance(last, ast.Constant) and last.value is None

        ok = bool(failed) and all(any(e[0] == "call" and e[1].startswith(("_LOGGER.warning(", "warnings.warn(")) for e in st.events) and built_without(st) for st in failed)
        in_try = tr and any(c is lam[0] for c in ast.walk(ast.Module(body=tr[0].body, type_ignores=[])))
        if ok and in_try:
            self.holds("Y6", SIM, q, "failure-warns-and-falls-back", tr[0], "conversion failures are logged as a warning and the integrator runs without a Jacobian")
        else:
            self.violated("Y6", SIM, q, "failure-warns-and-falls-back", fn, "a failed conversion is not reported / does not fall back to no Jacobian")

    def y7(self) -> None:
        stmts, exprs, binops, unops, cmps = handled_sets(self.prog)
        self.analysed["translator_handles"] = {"statements": sorted(stmts), "expressions": sorted(exprs), "binops": sorted(binops), "unaryops": sorted(unops), "compare": sorted(cmps)}
        lib = self.prog.module("fns.py")
        for name, f in lib.functions.items():
            if "." in name or name.startswith("_"):
                continue
            bad = []
            for s in strip_docstring(f.body):
                for n in ast.walk(s):
                    k = type(n).__name__
                    if isinstance(n, ast.stmt) and k not in stmts | {"Expr"}:
                        bad.append(k)
                    elif isinstance(n, ast.expr) and k not in exprs | {"Tuple"} and not isinstance(n, (ast.expr_context,)):
                        bad.append(k)
                    elif isinstance(n, ast.operator) and k not in binops:
                        bad.append(k)
                    elif isinstance(n, ast.unaryop) and k not in unops:
                        bad.append(k)
                    elif isinstance(n, ast.cmpop) and k not in cmps:
                        bad.append(k)
                    elif isinstance(n, ast.Call) and (n.keywords or any(isinstance(a, ast.Starred) for a in n.args)):
                        bad.append("Call-with-keywords")
            if f.args.vararg or f.args.kwarg or f.args.kwonlyargs:
                bad.append("non-positional-parameters")
            if bad:
                self.violated("Y7", "fns.py", name, "translatable", f, f"uses {sorted(set(bad))}, which the translator refuses: models built from this rate law do not convert",
                              witness=f"to_symbolic_model of a model using fns.{name} raises")
            else:
                self.holds("Y7", "fns.py", name, "translatable", f, "only handled statement / expression / operator kinds")

    def must_fire(self):
        T = "to_symbolic_model"
        return [
            Variant("derived-in-declaration-order", SYM, T, "for k in cache.order:", "for k in [*derived, *reactions]:", expect="Y1|", quick=True),
            Variant("misplaced-parenthesis", SYM, T, "fn_to_sympy(der.fn, origin=f'{rxn}:{cpd}', model_args=[symbols[i] for i in der.args])",
                    "fn_to_sympy(der.fn, [symbols[i] for i in der.args] * rxns[rxn])", expect="Y2|", quick=True),
            Variant("partial-equation-lookup", SYM, T, "eqs=[eqs.get(i, sympy.Float(0.0)) for i in cache.var_names]", "eqs=[eqs[i] for i in cache.var_names]", expect="Y3|", quick=True),
            Variant("only-equations-with-reactions", SYM, T, "eqs=[eqs.get(i, sympy.Float(0.0)) for i in cache.var_names]", "eqs=[eqs[i] for i in cache.var_names if i in eqs]", expect="Y3|"),
            Variant("equations-sorted", SYM, T, "for i in cache.var_names]", "for i in sorted(cache.var_names)]", expect="Y3|"),
            Variant("parameter-objects-to-jacobian", SIM, "Simulator._initialise_integrator", "list(self.model.get_parameter_values().values())", "self.model._parameters.values()", expect="Y5|", quick=True),
            Variant("names-from-all-parameters", SIM, "Simulator._initialise_integrator", "list(self.model.get_parameter_values()))", "self.model.get_parameter_names())", expect="Y5|"),
            Variant("jacobian-by-parameters", SYM, "SymbolicModel.jacobian", "list(self.variables.values())", "list(self.parameters.values())", expect="Y4|", quick=True),
            Variant("reaction-none-unchecked", SYM, T, "            if (expr := fn_to_sympy(rxn.fn, origin=k, model_args=[symbols[i] for i in rxn.args])) is None:\n                msg = f\"Unable to parse reaction '{k}'\"\n                raise ValueError(msg)\n",
                    "            expr = fn_to_sympy(rxn.fn, origin=k, model_args=[symbols[i] for i in rxn.args])\n", expect="Y8|"),
            Variant("dynamic-coefficient-dropped", SYM, T, "eqs[cpd] = eqs.get(cpd, sympy.Float(0.0)) + factor * rxns[rxn]", "eqs[cpd] = eqs.get(cpd, sympy.Float(0.0)) + rxns[rxn]", expect="Y9|"),
            Variant("jacobian-failure-silent", SIM, "Simulator._initialise_integrator", "            _LOGGER.warning(str(e), stacklevel=2)", "            pass", expect="Y6|"),
            Variant("library-uses-augassign", "fns.py", "mass_action_1s", "    return k * s1", "    v = k\n    v *= s1\n    return v", expect="Y7|", quick=True),
            Variant("reactions-not-in-symbols", SYM, T, "            symbols[k] = expr\n            rxns[k] = expr", "            rxns[k] = expr", expect="Y1|"),
        ]

    def must_stay_silent(self):
        return [
            Variant("dyn-order-spelled-out", SYM, "to_symbolic_model", r"\bder\b", "dq", count=0, regex=True, quick=True),
        ]


CHECK = C12
